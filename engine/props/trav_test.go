//go:build verife2

package props

import (
	"context"
	"fmt"
	"net"
	"net/netip"
	"sort"
	"strings"
	"sync"
	"testing"

	"github.com/anacrolix/dht/v2/krpc"
	"github.com/anacrolix/dht/v2/traversal"
	"github.com/anacrolix/dht/v2/types"
	"github.com/anacrolix/dht/v2/verifsched"
	"github.com/anacrolix/generics"

	"github.com/anacrolix/dht/v2/int160"
	k_nearest_nodes "github.com/anacrolix/dht/v2/k-nearest-nodes"

	"verif/explore"
	"verif/sim"
)

// ---- scenario vocabulary ---------------------------------------------------------------------------
//
// Target is the zero ID, so the XOR distance of a contact is its ID: tID(b) has last byte b.
// A contact is (id byte, address index); id 0 = ID unknown (seed given by address only).

type tContact struct {
	ID   byte
	Addr int
}

type tPeer struct {
	Claim byte       // ID it answers with; 0 = never answers (DoQuery returns an empty result)
	Nodes []tContact // contacts listed in its reply (also returned when Claim == 0 and NodesAnyway)
	Data  string     // ClosestData ("" = nil)
}

type tScenario struct {
	Name       string
	K, Alpha   int
	Peers      map[int]tPeer
	Adds       [][]tContact // one harness thread per batch; batch 0 is the seed set
	AddOne     []tContact   // one harness thread calling the single-contact API AddNode for each
	RejectAddr map[int]bool // NodeFilter rejects these addresses
	RejectID   map[byte]bool
	RejectData map[string]bool // DataFilter rejects these data values
	Stop       bool            // a harness thread calls Stop (twice) at an arbitrary moment
	Polls      int             // stall polls the observer may place anywhere
	Mapped     bool            // addresses in 16-byte IPv4-mapped form
	Small      bool            // also explored without state pruning
	Expect     []byte          // honest network: IDs of the K closest (checked when the lookup ran to its stall)
	Fine       bool            // lock releases are scheduling points too
	MinPB      int             // at least this preemption bound in the pruned tier (small scenarios only)
}

func tID(b byte) (id krpc.ID) { id[19] = b; return }

func tAddrPort(n int) netip.AddrPort {
	return netip.AddrPortFrom(netip.AddrFrom4([4]byte{10, 0, 0, byte(n % 16)}), uint16(1000+n/16))
}

// travMapped: addresses are handed to the operation in 16-byte IPv4-mapped form (as a dual-stack
// socket or a nodes6 list would). One execution runs at a time per process.
var travMapped bool

func tNodeAddr(n int) krpc.NodeAddr {
	ap := tAddrPort(n)
	ip := net.IP(ap.Addr().AsSlice())
	if travMapped {
		ip = ip.To16()
	}
	return krpc.NodeAddr{IP: ip, Port: int(ap.Port())}
}

func (c tContact) ami() types.AddrMaybeId {
	a := types.AddrMaybeId{Addr: tNodeAddr(c.Addr).ToNodeAddrPort()}
	if c.ID != 0 {
		a.Id = generics.Some(int160.FromByteArray(tID(c.ID)))
	}
	return a
}

func (c tContact) String() string { return fmt.Sprintf("%d@%d", c.ID, c.Addr) }

type elemT = k_nearest_nodes.Elem

// traversalGoroutines lists goroutines that still have a frame in the traversal package.
func traversalGoroutines() (out []string) {
	for _, g := range sim.ModuleGoroutines() {
		if strings.Contains(g.Stack, "dht/v2/traversal.") {
			out = append(out, sim.TopFuncs([]sim.Goroutine{g})...)
		}
	}
	return
}

// ---- harness state ------------------------------------------------------------------------------------

type tQuery struct {
	Addr     int
	AddrStr  string
	Ctx      context.Context
	Returned bool
	Order    int
}

type tHarness struct {
	scn *tScenario
	op  *traversal.Operation

	mu               sync.Mutex // plain mutex, never held across a Point
	queries          []*tQuery
	inflight         int
	maxInflight      int
	learned          []tContact        // contacts handed to the operation by completed AddNodes calls and returned replies
	responders       map[string]string // "id@addr" -> data, for peers whose reply was returned
	stopCalled       bool              // Stop() has returned at least once
	stopInvoked      bool
	viol             []string // monitor violations, "kind: detail"
	stallsSeen       int
	stoppedSeen      bool
	atStopped        []string // result set in the first quiescent state in which Stopped() was readable
	stopInvokedEarly bool     // Stop was invoked by the scenario's own stop thread (before the final stall)
	polls            int
}

func (h *tHarness) violate(kind, detail string) {
	h.mu.Lock()
	h.viol = append(h.viol, kind+": "+detail)
	h.mu.Unlock()
}

func addrIndex(na krpc.NodeAddr) int {
	ip := na.IP.To4()
	if ip == nil {
		return -1
	}
	return int(ip[3]) + 16*(na.Port-1000)
}

func (h *tHarness) filter(a types.AddrMaybeId) bool {
	idx := addrIndex(a.Addr.ToNodeAddr())
	if h.scn.RejectAddr[idx] {
		return false
	}
	if a.Id.Ok {
		id := a.Id.Value.AsByteArray()
		if h.scn.RejectID[id[19]] {
			return false
		}
	}
	return true
}

func (h *tHarness) passes(c tContact) bool {
	return !h.scn.RejectAddr[c.Addr] && !(c.ID != 0 && h.scn.RejectID[c.ID])
}

func (h *tHarness) doQuery(ctx context.Context, na krpc.NodeAddr) (res traversal.QueryResult) {
	idx := addrIndex(na)
	verifsched.Tag(fmt.Sprintf("q:%02d", idx))
	h.mu.Lock()
	q := &tQuery{Addr: idx, AddrStr: na.String(), Ctx: ctx, Order: len(h.queries)}
	n := 0
	for _, o := range h.queries {
		if o.Addr == idx {
			n++
		}
	}
	h.queries = append(h.queries, q)
	h.inflight++
	if h.inflight > h.maxInflight {
		h.maxInflight = h.inflight
	}
	if h.inflight > h.scn.Alpha {
		h.viol = append(h.viol, fmt.Sprintf("fanout: %d queries in flight with Alpha=%d (entering %s)", h.inflight, h.scn.Alpha, q.AddrStr))
	}
	if n > 0 {
		h.viol = append(h.viol, fmt.Sprintf("requery: address %s queried %d times", q.AddrStr, n+1))
	}
	if h.scn.RejectAddr[idx] {
		h.viol = append(h.viol, fmt.Sprintf("filtered-queried: address %s is rejected by the node filter but was queried", q.AddrStr))
	}
	if h.stopCalled && ctx.Err() == nil {
		// a query started after Stop returned: its context must at least be cancelled promptly;
		// checked at the next quiescent state by the monitor.
	}
	tooMany := len(h.queries) > 3*len(h.scn.Peers)+6
	h.mu.Unlock()
	if !tooMany {
		verifsched.Point("dq-ret")
	}
	p, ok := h.scn.Peers[idx]
	h.mu.Lock()
	q.Returned = true
	h.inflight--
	if ok {
		for _, c := range p.Nodes {
			h.learned = append(h.learned, c)
		}
		if p.Claim != 0 {
			key := fmt.Sprintf("%d@%d", p.Claim, idx)
			h.responders[key] = p.Data
		}
	}
	h.mu.Unlock()
	if !ok {
		return
	}
	if p.Claim != 0 {
		res.ResponseFrom = &krpc.NodeInfo{ID: tID(p.Claim), Addr: na}
		if p.Data != "" {
			res.ClosestData = p.Data
		}
	}
	for _, c := range p.Nodes {
		res.Nodes = append(res.Nodes, krpc.NodeInfo{ID: tID(c.ID), Addr: tNodeAddr(c.Addr)})
	}
	return
}

// closestNow reads the operation's result set (call only in a quiescent state).
func (h *tHarness) closestNow() (out []struct {
	ID   byte
	Addr int
	Data string
	Key  string
}) {
	h.op.Closest().Range(func(e elemT) {
		id := e.ID
		d, _ := e.Data.(string)
		idx := addrIndex(e.Addr.ToNodeAddr())
		out = append(out, struct {
			ID   byte
			Addr int
			Data string
			Key  string
		}{id[19], idx, d, fmt.Sprintf("%d@%d", id[19], idx)})
	})
	return
}

// stallPredicate evaluates the C03 safety statement in the current quiescent state.
func (h *tHarness) stallPredicate(where string) {
	snap := h.op.VerifSnapshot()
	h.mu.Lock()
	defer h.mu.Unlock()
	if h.inflight != 0 {
		h.viol = append(h.viol, fmt.Sprintf("stall-inflight: stalled (%s) while %d queries are in flight", where, h.inflight))
	}
	if snap.Outstanding != 0 {
		h.viol = append(h.viol, fmt.Sprintf("stall-inflight: stalled (%s) while the operation counts %d outstanding queries", where, snap.Outstanding))
	}
	queried := map[int]bool{}
	for _, q := range h.queries {
		queried[q.Addr] = true
	}
	cl := h.closestUnlocked()
	full := len(cl) >= h.scn.K
	var far byte
	for _, e := range cl {
		if e > far {
			far = e
		}
	}
	for _, c := range h.learned {
		if !h.passes(c) || queried[c.Addr] {
			continue
		}
		if full && (c.ID == 0 || c.ID > far) {
			continue
		}
		h.viol = append(h.viol, fmt.Sprintf("stall-unqueried: stalled (%s) although learned contact %v passes the filter and was never queried (result set %v, K=%d)", where, c, cl, h.scn.K))
		return
	}
}

func (h *tHarness) closestKeysUnlocked() (keys []string) {
	h.op.Closest().Range(func(e elemT) {
		d, _ := e.Data.(string)
		keys = append(keys, fmt.Sprintf("%d@%s/%s", e.ID[19], e.Addr, d))
	})
	return
}

func (h *tHarness) closestUnlocked() (ids []byte) {
	h.op.Closest().Range(func(e elemT) { ids = append(ids, e.ID[19]) })
	return
}

// ---- one scheduled execution ---------------------------------------------------------------------------

type tOutcome struct {
	viol    []string
	closest string
	queries int
	maxInfl int
	stalls  int
}

func runTraversal(t *testing.T, scn *tScenario, prefix []int, envMode bool) (x explore.Exec, out tOutcome, states map[uint64]struct{}) {
	var c *e2Ctl
	var h *tHarness
	horizon := 4000
	travMapped = scn.Mapped
	p := Bubble(t, func() {
		c = newE2(prefix, horizon)
		defer c.done()
		c.S.Fine = scn.Fine
		c.envMode = envMode
		c.isEnv = func(t *verifsched.Thread) bool {
			return strings.HasPrefix(t.Name, "h:") || (strings.HasPrefix(t.Name, "q:") && t.Kind == "dq-ret")
		}
		h = &tHarness{scn: scn, responders: map[string]string{}}
		in := traversal.OperationInput{
			Alpha:      scn.Alpha,
			K:          scn.K,
			DoQuery:    h.doQuery,
			NodeFilter: h.filter,
		}
		if len(scn.RejectData) > 0 {
			in.DataFilter = func(d any) bool { s, _ := d.(string); return !scn.RejectData[s] }
		}
		h.op = traversal.Start(in)
		c.isLoop = func(name string) bool {
			return strings.Contains(name, "(*Operation).run") || strings.Contains(name, "(*Operation).Stop.")
		}
		c.stateKey = func() string {
			s := h.op.VerifSnapshot()
			sort.Strings(s.Queried)
			stopping := false
			select {
			case <-h.op.Stopped():
				stopping = true
			default:
			}
			h.mu.Lock()
			defer h.mu.Unlock()
			var ret []int
			for _, q := range h.queries {
				if q.Returned {
					ret = append(ret, q.Addr)
				}
			}
			sort.Ints(ret)
			return fmt.Sprintf("o%d u%v q%v c%v i%d r%v l%d s%v%v%v v%d", s.Outstanding, s.UnqueriedList, s.Queried, h.closestKeysUnlocked(), h.inflight, ret, len(h.learned), h.stopInvoked, h.stopCalled, stopping, len(h.viol))
		}
		for i, batch := range scn.Adds {
			batch := batch
			name := fmt.Sprintf("h:add%d", i)
			go func() {
				verifsched.Tag(name)
				verifsched.Point("api-add")
				var amis []types.AddrMaybeId
				for _, ct := range batch {
					amis = append(amis, ct.ami())
				}
				h.op.AddNodes(amis)
				h.mu.Lock()
				h.learned = append(h.learned, batch...)
				h.mu.Unlock()
			}()
		}
		if len(scn.AddOne) > 0 {
			go func() {
				verifsched.Tag("h:addone")
				for _, ct := range scn.AddOne {
					verifsched.Point("api-addone")
					err := h.op.AddNode(ct.ami())
					h.mu.Lock()
					if err == nil {
						h.learned = append(h.learned, ct)
					}
					h.mu.Unlock()
				}
			}()
		}
		stopper := func(name string) {
			verifsched.Tag(name)
			verifsched.Point("api-stop")
			h.mu.Lock()
			h.stopInvoked = true
			h.mu.Unlock()
			h.op.Stop()
			h.mu.Lock()
			h.stopCalled = true
			h.mu.Unlock()
			verifsched.Point("api-stop2")
			h.op.Stop()
		}
		if scn.Stop {
			h.stopInvokedEarly = true
			go stopper("h:stop")
		}
		if scn.Polls > 0 {
			go func() {
				verifsched.TagObserver("h:poll")
				for i := 0; i < scn.Polls; i++ {
					verifsched.Point("poll")
					h.poll("poll")
				}
			}()
		}
		monitor := func() {
			h.mu.Lock()
			if h.stopCalled {
				for _, q := range h.queries {
					if !q.Returned && q.Ctx.Err() == nil {
						h.viol = append(h.viol, fmt.Sprintf("ctx-not-cancelled: Stop has returned but the context of the in-flight query to %s is not cancelled", q.AddrStr))
					}
				}
			}
			if h.atStopped == nil {
				select {
				case <-h.op.Stopped():
					h.atStopped = h.closestKeysUnlocked()
					if h.atStopped == nil {
						h.atStopped = []string{}
					}
				default:
				}
			}
			for _, v := range c.S.Violations {
				h.viol = append(h.viol, "sync-misuse: "+v)
			}
			c.S.Violations = nil
			h.mu.Unlock()
		}
		ok := c.loop(monitor)
		if !ok {
			if c.err == "" {
				h.violate("horizon", fmt.Sprintf("more than %d scheduling steps: the lookup does not terminate", horizon))
			}
			return
		}
		// Phase 1 is over: nothing can run. Unless Stop was called the operation must be stalled.
		h.mu.Lock()
		stopInvoked := h.stopInvoked
		h.mu.Unlock()
		_, blocked := c.S.Snapshot()
		if len(blocked) > 0 {
			var names []string
			for _, b := range blocked {
				names = append(names, b.Describe())
			}
			h.violate("deadlock", "no thread can run but these wait for a mutex: "+strings.Join(names, ","))
			return
		}
		if !stopInvoked {
			if !h.poll("end") {
				h.violate("no-stall", fmt.Sprintf("every query has returned (%d made) and nothing can run, but the lookup does not report stalled (lost wake-up)", len(h.queries)))
				return
			}
			go stopper("h:zstop")
			if !c.loop(monitor) {
				if c.err == "" {
					h.violate("horizon", "does not terminate after Stop")
				}
				return
			}
		}
		select {
		case <-h.op.Stopped():
		default:
			h.violate("no-stopped", "Stop was called and every in-flight query has returned, nothing can run, but Stopped() is not signalled")
			return
		}
		h.finalCheck()
		out.closest = fmt.Sprint(h.closestUnlocked())
	})
	x.Points = c.points
	x.Trace = explore.TraceOf(c.points)
	x.Err = c.err
	states = c.states
	h.mu.Lock()
	out.viol = append(out.viol, h.viol...)
	out.queries = len(h.queries)
	out.maxInfl = h.maxInflight
	out.stalls = h.stallsSeen
	h.mu.Unlock()
	if p != "" && len(out.viol) == 0 && c.err == "" {
		out.viol = append(out.viol, "bubble: "+firstLine(p))
	}
	return
}

// poll does one non-blocking receive on Stalled(); on a stall value it evaluates the predicate.
func (h *tHarness) poll(where string) (stalled bool) {
	select {
	case _, ok := <-h.op.Stalled():
		if ok {
			h.mu.Lock()
			h.stallsSeen++
			h.mu.Unlock()
			h.stallPredicate(where)
			return true
		}
		return false
	default:
		return false
	}
}

func firstLine(s string) string {
	if i := strings.Index(s, "\n"); i > 0 {
		return s[:i]
	}
	return s
}

// finalCheck is the C02 oracle on the result set of a stopped lookup.
func (h *tHarness) finalCheck() {
	cl := h.closestNow()
	h.mu.Lock()
	defer h.mu.Unlock()
	scn := h.scn
	if len(cl) > scn.K {
		h.viol = append(h.viol, fmt.Sprintf("c02-size: result set holds %d contacts, K=%d", len(cl), scn.K))
	}
	in := map[string]bool{}
	var far byte
	for _, e := range cl {
		in[e.Key] = true
		if e.ID > far {
			far = e.ID
		}
		data, ok := h.responders[e.Key]
		if !ok {
			h.viol = append(h.viol, fmt.Sprintf("c02-nonresponder: member %s never answered a query of this lookup (responders %v)", e.Key, keysOf(h.responders)))
			continue
		}
		if data != e.Data {
			h.viol = append(h.viol, fmt.Sprintf("c02-data: member %s carries data %q but answered with %q", e.Key, e.Data, data))
		}
		if scn.RejectAddr[e.Addr] || scn.RejectID[e.ID] {
			h.viol = append(h.viol, fmt.Sprintf("c02-nodefilter: member %s is rejected by the node filter", e.Key))
		}
		if scn.RejectData[data] {
			h.viol = append(h.viol, fmt.Sprintf("c02-datafilter: member %s answered with data %q, which the data filter rejects", e.Key, data))
		}
	}
	var passing []byte
	for key, data := range h.responders {
		var id byte
		var addr int
		fmt.Sscanf(key, "%d@%d", &id, &addr)
		if scn.RejectAddr[addr] || scn.RejectID[id] || scn.RejectData[data] {
			continue
		}
		passing = append(passing, id)
		if in[key] {
			continue
		}
		for _, m := range cl {
			if id < m.ID {
				h.viol = append(h.viol, fmt.Sprintf("c02-closer-absent: responder %s passed the filters and is absent from the result set %v although it is strictly closer than member %s", key, memberKeys(cl), m.Key))
				break
			}
		}
	}
	if h.atStopped != nil && fmt.Sprint(h.atStopped) != fmt.Sprint(h.closestKeysUnlocked()) && len(h.atStopped)+len(cl) > 0 {
		h.viol = append(h.viol, fmt.Sprintf("c02-changed-after-stopped: the result set was %v when Stopped() fired and is %v after the remaining queries returned", h.atStopped, h.closestKeysUnlocked()))
	}
	if scn.Expect != nil && !h.stopInvokedEarly {
		var got []byte
		for _, e := range cl {
			got = append(got, e.ID)
		}
		sort.Slice(got, func(i, j int) bool { return got[i] < got[j] })
		if fmt.Sprint(got) != fmt.Sprint(scn.Expect) {
			h.viol = append(h.viol, fmt.Sprintf("c02-not-k-closest: every contacted node answered truthfully; the K=%d closest of the network are %v but the result set is %v", scn.K, scn.Expect, got))
		}
	}
}

func keysOf(m map[string]string) (out []string) {
	for k := range m {
		out = append(out, k)
	}
	sort.Strings(out)
	return
}

func memberKeys(cl []struct {
	ID   byte
	Addr int
	Data string
	Key  string
}) (out []string) {
	for _, e := range cl {
		out = append(out, e.Key)
	}
	return
}
