//go:build verife2

package props

import (
	"context"
	"errors"
	"fmt"
	"strings"
	"testing"
	"testing/synctest"
	"time"

	"github.com/anacrolix/dht/v2"
	"github.com/anacrolix/dht/v2/verifsched"

	"verif/explore"
	"verif/sim"
)

// C14 / C07 at synchronisation-point granularity: one real Server.Query (the root package is built
// through the same import-rewriting overlay as traversal/, so every s.mu Lock/RLock, SetOnce.Set and
// every socket write is a scheduling point) racing the arrival of its reply, the caller's
// cancellation, Server.Close and the resend/time-out timers (the explorer lets virtual time pass
// as an explicit, budgeted choice). All interleavings, state-pruned.

var q2WrongID = sim.InBucket(sim.Root, 5, 77)

type q2Scn struct {
	Name   string
	Tries  int
	Reply  bool
	Wrong  bool // additionally a reply with the right t from another port
	Cancel bool
	Close  bool
	FailAt int
	Second bool // a second query to another address follows; nobody answers it
	Heavy  bool // thorough tier only
}

func q2Scenarios() []q2Scn {
	return []q2Scn{
		{Name: "reply", Tries: 1, Reply: true},
		{Name: "reply-cancel", Tries: 1, Reply: true, Cancel: true},
		{Name: "reply-cancel-2", Tries: 2, Reply: true, Cancel: true},
		{Name: "reply-close", Tries: 2, Reply: true, Close: true},
		{Name: "cancel-close", Tries: 2, Cancel: true, Close: true},
		{Name: "reply-wrong-cancel", Tries: 1, Reply: true, Wrong: true, Cancel: true},
		{Name: "timeout", Tries: 2},
		{Name: "fail2-reply", Tries: 2, Reply: true, FailAt: 2},
		{Name: "all", Tries: 2, Reply: true, Cancel: true, Close: true},
		{Name: "reply-cancel-then-second", Tries: 1, Reply: true, Cancel: true, Second: true},
		{Name: "all-3", Heavy: true, Tries: 3, Reply: true, Cancel: true, Close: true},
		{Name: "fail3-reply-wrong", Heavy: true, Tries: 3, Reply: true, Wrong: true, FailAt: 3},
	}
}

func runQ2(t *testing.T, scn *q2Scn, prefix []int) (x explore.Exec) {
	var c *e2Ctl
	var viol, outcome string
	pan := Bubble(t, func() {
		y := NewSys(func(cfg *dht.ServerConfig) {
			cfg.QueryResendDelay = func() time.Duration { return time.Second }
		})
		peer := sim.UDP4(61, 1, 1, 1, 6111)
		if scn.FailAt > 0 {
			y.Conn.FailSend = map[int]error{scn.FailAt: errors.New("scripted send error")}
		}
		synctest.Wait()
		c = newE2(prefix, 400)
		defer c.done()
		// The sender's first select races a zero-delay timer against ctx.Done(): if the context is
		// already cancelled when it gets there, which case wins is the Go runtime's choice and would
		// make schedules irreproducible. The cancel thread therefore becomes schedulable only once
		// the first socket write has been attempted (cancellation before that is covered by the
		// timing grid, instant "pre").
		firstAttempt := make(chan struct{})
		attempted := false
		abort := make(chan struct{})
		defer close(abort)
		y.Conn.BeforeWrite = func() {
			if !attempted {
				attempted = true
				close(firstAttempt)
			}
			verifsched.Point("sock-write")
		}
		c.tick, c.maxTicks = time.Second, 4*(scn.Tries+2) // hard cap; deliberate (non-default) ticks are bounded by the DFS observation budget
		ctx, cancel := context.WithCancel(context.Background())
		defer cancel()
		var qr, qr2 dht.QueryResult
		second := false
		returned, replied, cancelled, closed := false, false, false, false
		firstWrite := make(chan struct{})
		var tid string
		y.Conn.OnWrite = func(w *sim.Write) {
			if tid == "" && w.Err == nil {
				if o := DecodeWrites([]*sim.Write{w})[0]; o.Y() == "q" {
					tid = o.T()
					close(firstWrite)
				}
			}
		}
		c.wantTick = func() bool { return !returned }
		c.stateKey = func() string {
			return fmt.Sprintf("ret=%v rep=%v can=%v clo=%v w=%d t=%d", returned, replied, cancelled, closed, y.Conn.NumWrites(), c.ticks)
		}
		go func() {
			verifsched.Tag("h:query")
			verifsched.Point("api")
			qr = y.S.Query(ctx, dht.NewAddr(peer), "ping", dht.QueryInput{NumTries: scn.Tries})
			if scn.Second {
				verifsched.Point("api2")
				qr2 = y.S.Query(context.Background(), dht.NewAddr(sim.UDP4(61, 1, 1, 9, 6199)), "ping", dht.QueryInput{NumTries: 1})
				second = true
			}
			returned = true
		}()
		if scn.Reply {
			go func() {
				select {
				case <-firstWrite:
				case <-abort:
					return
				}
				verifsched.Tag("h:reply")
				verifsched.Point("net-reply")
				if !y.Conn.IsClosed() {
					replied = true
					y.Conn.InjectSync(peer, sim.Reply(tid, sim.M{"id": sim.IDStr(peerID)}))
				}
			}()
		}
		if scn.Wrong {
			go func() {
				select {
				case <-firstWrite:
				case <-abort:
					return
				}
				verifsched.Tag("h:wrong")
				verifsched.Point("net-wrong")
				if !y.Conn.IsClosed() {
					// same t, another port, and a payload of its own (another sender ID)
					y.Conn.InjectSync(sim.UDP4(61, 1, 1, 1, 6112), sim.Reply(tid, sim.M{"id": sim.IDStr(q2WrongID)}))
				}
			}()
		}
		if scn.Cancel {
			go func() {
				select {
				case <-firstAttempt:
				case <-abort:
					return
				}
				verifsched.Tag("h:cancel")
				verifsched.Point("cancel")
				cancelled = true
				cancel()
			}()
		}
		if scn.Close {
			go func() {
				verifsched.Tag("h:close")
				verifsched.Point("close")
				closed = true
				y.S.Close()
			}()
		}
		sendsAtReturn := -1
		monitor := func() {
			if returned && sendsAtReturn < 0 {
				sendsAtReturn = y.Conn.NumWrites()
			}
		}
		if !c.loop(monitor) {
			if c.err == "" {
				viol = "horizon: the query scenario does not finish"
			}
			return
		}
		if _, bl := c.S.Snapshot(); len(bl) > 0 {
			var ns []string
			for _, b := range bl {
				ns = append(ns, b.Describe())
			}
			viol = "deadlock: threads wait for a mutex forever: " + strings.Join(ns, ",")
			return
		}
		y.Conn.BeforeWrite = nil
		verifsched.Install(nil)
		synctest.Wait()
		if !returned {
			viol = fmt.Sprintf("no-return: Query did not return although every event happened and %d timer intervals passed (NumTries=%d)", c.ticks, scn.Tries)
			return
		}
		sends := 0
		for _, w := range y.Conn.Writes() {
			if w.To.String() == peer.String() {
				sends++
			}
		}
		class := "other:" + fmt.Sprint(qr.Err)
		switch {
		case qr.Err == nil && qr.Reply.Y != "":
			class = "reply"
		case errors.Is(qr.Err, context.Canceled):
			class = "ctx"
		case errors.Is(qr.Err, dht.TransactionTimeout):
			class = "timeout"
		case qr.Err != nil && strings.Contains(qr.Err.Error(), "server is closed"):
			class = "closed"
		case qr.Err != nil && strings.Contains(qr.Err.Error(), "scripted send error"):
			class = "senderr"
		case qr.Err != nil && strings.Contains(qr.Err.Error(), "closed network connection"):
			class = "closed"
		}
		outcome = fmt.Sprintf("%s sends=%d", class, sends)
		switch {
		case second && qr2.Err == nil && qr2.Reply.Y != "":
			viol = fmt.Sprintf("completed-by-foreign-reply: the second query (to another address, never answered) returned a reply (t=%x)", qr2.Reply.T)
		case sends > scn.Tries:
			viol = fmt.Sprintf("too-many-sends: %d datagrams for NumTries=%d", sends, scn.Tries)
		case sendsAtReturn >= 0 && y.Conn.NumWrites() != sendsAtReturn:
			viol = fmt.Sprintf("send-after-return: %d datagrams had been written when Query returned, %d in the end", sendsAtReturn, y.Conn.NumWrites())
		case class == "reply" && qr.Reply.R != nil && sim.ID(qr.Reply.R.ID) == q2WrongID:
			viol = "completed-by-foreign-reply: Query returned the payload of the datagram that came from another port of the queried host"
		case class == "reply" && !replied:
			viol = "completed-without-reply: Query returned a reply although none was delivered from the queried address"
		case class == "ctx" && !cancelled:
			viol = "spurious-ctx-error: Query returned a context error although the context was never cancelled"
		case class == "closed" && !closed:
			viol = "spurious-closed: Query failed with 'closed' although the server was never closed"
		case class == "senderr" && scn.FailAt == 0:
			viol = "spurious-send-error"
		case strings.HasPrefix(class, "other"):
			viol = "unexpected-result: " + class
		}
		if viol != "" {
			return
		}
		if v := c14Cleanup(y, closed); v != "" {
			viol = v
			return
		}
		if !closed {
			y.Close()
		}
		time.Sleep(5 * time.Second)
		synctest.Wait()
		if l := moduleLeftovers(false); len(l) > 0 {
			viol = fmt.Sprintf("goroutine-left: after Close: %v", l)
		}
	})
	if c != nil {
		x.Points = c.points
		x.Trace = explore.TraceOf(c.points)
		x.Err = c.err
	}
	if pan != "" && viol == "" && x.Err == "" {
		viol = "bubble: " + firstLineOf(pan)
	}
	x.Res.Steps = len(x.Points)
	x.Res.Outcome = outcome
	if viol != "" {
		x.Res.Viol = viol + " [schedule: " + c13Sched(x.Points) + "]"
	}
	return
}

func c14SyncTierImpl(t *testing.T, w *explore.Worker, idx *int) {
	pb := 2
	if w.Thorough() {
		pb = -1
	}
	w.Bound("sync_tier_preemption_bound", pb)
	for _, scn := range q2Scenarios() {
		scn := scn
		i := *idx
		*idx++
		if !w.Mine(i) || (scn.Heavy && !w.Thorough()) {
			continue
		}
		if w.OutOfTime() {
			w.Cap("time budget hit before sync-tier scenario " + scn.Name)
			continue
		}
		unit := "sync;scn=" + scn.Name
		w.BeginUnit(i, unit)
		d := &explore.DFS{W: w, Unit: unit, Preempt: pb, Observe: scn.Tries + 2, DetCheck: 2, Prune: true, MaxViol: 5,
			Run: func(prefix []int) explore.Exec { return runQ2(t, &scn, prefix) }}
		if scn.Heavy {
			d.Deadline = time.Now().Add(w.Remaining() / 3)
		}
		d.Explore()
		w.Note(fmt.Sprintf("%s: %d executions, %d states expanded, %d prunings, max %d scheduling points", unit, d.Executions, d.States, d.Pruned, d.MaxPoints))
		w.Distinct(unit)
		w.Flush(false)
	}
}

// C07 reads the same scenarios with its own oracle only: a query completes with a reply only if one
// was delivered from the queried address for its transaction.
func c07Only(r explore.Result) explore.Result {
	if r.Viol != "" && !strings.HasPrefix(r.Viol, "completed-by-foreign-reply") && !strings.HasPrefix(r.Viol, "completed-without-reply") && !strings.HasPrefix(r.Viol, "HARNESS") {
		r.Viol = ""
	}
	return r
}

func c07Q2(name string) bool {
	return name == "reply-wrong-cancel" || name == "reply-cancel-then-second" || name == "reply-cancel"
}

func init() {
	c07SyncTier = func(t *testing.T, w *explore.Worker, idx *int) {
		pb := 2
		if w.Thorough() {
			pb = -1
		}
		w.Bound("sync_tier_preemption_bound", pb)
		for _, scn := range q2Scenarios() {
			scn := scn
			if !c07Q2(scn.Name) {
				continue
			}
			i := *idx
			*idx++
			if !w.Mine(i) {
				continue
			}
			unit := "sync;scn=" + scn.Name
			w.BeginUnit(i, unit)
			d := &explore.DFS{W: w, Unit: unit, Preempt: pb, Observe: scn.Tries + 2, DetCheck: 2, Prune: true, MaxViol: 5,
				Run: func(prefix []int) explore.Exec {
					x := runQ2(t, &scn, prefix)
					x.Res = c07Only(x.Res)
					return x
				}}
			d.Explore()
			w.AddStates(d.States)
			w.Note(fmt.Sprintf("%s: %d executions, %d states expanded, %d prunings, max %d scheduling points", unit, d.Executions, d.States, d.Pruned, d.MaxPoints))
			w.Flush(false)
		}
	}
	c07SyncReplay = func(t *testing.T, c explore.Case) explore.Result {
		return c07Only(c14SyncReplay(t, c))
	}
	c14SyncTier = c14SyncTierImpl
	c14SyncReplay = func(t *testing.T, c explore.Case) explore.Result {
		name := strings.TrimPrefix(c.Unit, "sync;scn=")
		for _, scn := range q2Scenarios() {
			if scn.Name == name {
				ch, _ := explore.HToChoices(c.H)
				x := runQ2(t, &scn, ch)
				if x.Err != "" {
					return explore.Result{Viol: "HARNESS: " + x.Err}
				}
				return x.Res
			}
		}
		return explore.Result{Viol: "HARNESS: unknown scenario " + name}
	}
}
