package props

import (
	"context"
	"crypto/sha1"
	"errors"
	"fmt"
	"sort"
	"strconv"
	"strings"
	"testing"
	"testing/synctest"
	"time"

	"github.com/anacrolix/dht/v2"
	"github.com/anacrolix/dht/v2/bep44"
	"github.com/anacrolix/dht/v2/exts/getput"
	"github.com/anacrolix/dht/v2/int160"
	"github.com/anacrolix/dht/v2/krpc"
	"golang.org/x/time/rate"

	"verif/explore"
	"verif/sim"
)

// C14 — every query and traversal ends and cleans up after itself (fault / timing enumeration on
// the virtual clock; resend delay d = 1 s).

const c14D = time.Second

// instants: "never", "0" (right after the first send), "h" (d/2), "<k>-" / "<k>+" (k*d -/+ 1 ns)
func c14Instant(s string) (time.Duration, bool) {
	switch s {
	case "never":
		return 0, false
	case "0":
		return 0, true
	case "h":
		return c14D / 2, true
	}
	if strings.HasSuffix(s, "q") { // k*d + d/4: inside the window in which send k+1 is stuck
		k, _ := strconv.Atoi(s[:len(s)-1])
		return time.Duration(k)*c14D + c14D/4, true
	}
	k, _ := strconv.Atoi(s[:len(s)-1])
	if strings.HasSuffix(s, "-") {
		return time.Duration(k)*c14D - time.Nanosecond, true
	}
	return time.Duration(k)*c14D + time.Nanosecond, true
}

func c14Grid(n int) []string {
	g := []string{"never", "0", "h"}
	for k := 1; k <= n; k++ {
		g = append(g, fmt.Sprintf("%d-", k), fmt.Sprintf("%d+", k))
	}
	return g
}

// moduleLeftovers lists goroutines with a frame in the module other than the serve loop.
func moduleLeftovers(allowServe bool) (out []string) {
	for _, g := range sim.ModuleGoroutines() {
		if strings.Contains(g.Stack, "verif/props.") && !strings.Contains(g.Stack, "created by github.com/anacrolix/dht") {
			// a harness goroutine still inside an API call is reported separately ("did not return")
			if !strings.Contains(g.Stack, "dht/v2.") && !strings.Contains(g.Stack, "dht/v2/") {
				continue
			}
		}
		if allowServe && strings.Contains(g.Stack, "serveUntilClosed") {
			continue
		}
		if strings.Contains(g.Stack, "props.moduleLeftovers") {
			continue
		}
		out = append(out, strings.Join(sim.TopFuncs([]sim.Goroutine{g}), "")+" ["+g.State+"]")
	}
	sort.Strings(out)
	return
}

func kv(h []string) map[string]string {
	m := map[string]string{}
	for _, s := range h {
		if i := strings.Index(s, "="); i > 0 {
			m[s[:i]] = s[i+1:]
		}
	}
	return m
}

func c14Cleanup(y *Sys, closed bool) string {
	if st := y.S.Stats(); st.OutstandingTransactions != 0 {
		return fmt.Sprintf("transaction-left: Stats().OutstandingTransactions = %d after the call returned", st.OutstandingTransactions)
	}
	if n := y.S.VerifTable().Transactions; n != 0 {
		return fmt.Sprintf("transaction-left: %d pending transactions after the call returned", n)
	}
	if l := moduleLeftovers(!closed); len(l) > 0 {
		return fmt.Sprintf("goroutine-left: %v", l)
	}
	return ""
}

// after Close: a new query fails and nothing is written
func c14AfterClose(y *Sys) string {
	if !y.Conn.IsClosed() {
		y.S.Close()
		synctest.Wait()
	}
	before := y.Conn.NumWrites()
	var res dht.QueryResult
	done := false
	go func() {
		res = y.S.Query(context.Background(), dht.NewAddr(sim.UDP4(9, 9, 9, 9, 9999)), "ping", dht.QueryInput{})
		done = true
	}()
	synctest.Wait()
	time.Sleep(5 * c14D)
	synctest.Wait()
	if !done {
		return "closed-query-hangs: a query started after Close did not return"
	}
	if res.Err == nil {
		return "closed-query-succeeds: a query started after Close returned without error"
	}
	if n := y.Conn.NumWrites(); n != before {
		return fmt.Sprintf("closed-sends: %d datagrams written after Close", n-before)
	}
	if l := moduleLeftovers(false); len(l) > 0 {
		return fmt.Sprintf("goroutine-left: after Close: %v", l)
	}
	return ""
}

// ---- part A: one query on the timing / fault grid ------------------------------------------------------

func runC14Query(t *testing.T, c explore.Case) (res explore.Result) {
	p := kv(c.H)
	n, _ := strconv.Atoi(p["n"])
	var outcome string
	pan := Bubble(t, func() {
		limEmpty := p["lim"] == "empty"
		y := NewSys(func(cfg *dht.ServerConfig) {
			cfg.QueryResendDelay = func() time.Duration { return c14D }
			if p["blk"] == "t" {
				cfg.IPBlocklist = Blocklist{cidr("198.51.100.0/24")} // covers none of the addresses used
			}
			if limEmpty {
				l := rate.NewLimiter(rate.Every(time.Hour), 1)
				l.Allow()
				cfg.SendLimiter = l
			}
		})
		if w := p["W"]; w != "none" {
			i, _ := strconv.Atoi(w)
			y.Conn.FailSend = map[int]error{i: errors.New("scripted send error")}
		}
		// B=<k>: the k-th socket write is stuck for half a resend interval
		blocked := 0
		var unblock chan struct{}
		if b := p["B"]; b != "" && b != "none" {
			blocked, _ = strconv.Atoi(b)
			unblock = make(chan struct{})
			y.Conn.BlockSend = map[int]chan struct{}{blocked: unblock}
		}
		peer := sim.UDP4(61, 1, 1, 1, 6111)
		ctx, cancel := context.WithCancel(context.Background())
		defer cancel()
		var rl dht.QueryRateLimiting
		switch p["rl"] {
		case "nowaitfirst":
			rl.NoWaitFirst = true
		case "waitonretries":
			rl.WaitOnRetries = true
		case "notany":
			rl.NotAny = true
		}
		var qr dht.QueryResult
		returned := false
		start := time.Now()
		go func() {
			qr = y.S.Query(ctx, dht.NewAddr(peer), "ping", dht.QueryInput{NumTries: n, RateLimiting: rl})
			returned = true
		}()
		synctest.Wait()
		type ev struct {
			at   time.Duration
			kind string
		}
		var evs []ev
		for _, k := range []string{"R", "C", "S"} {
			if d, ok := c14Instant(p[k]); ok {
				evs = append(evs, ev{d, k})
			}
		}
		if blocked > 0 {
			evs = append(evs, ev{time.Duration(blocked-1)*c14D + c14D/2, "U"})
		}
		sort.SliceStable(evs, func(i, j int) bool { return evs[i].at < evs[j].at })
		closed := false
		replied := time.Duration(-1)
		checkedAtReturn, sendsAtReturn := false, 0
		countSends := func() (k int) {
			for _, w := range y.Conn.Writes() {
				if w.To.String() == peer.String() {
					k++
				}
			}
			return
		}
		atReturn := func() {
			if !returned || checkedAtReturn || res.Viol != "" {
				return
			}
			checkedAtReturn = true
			sendsAtReturn = countSends()
			if v := c14Cleanup(y, closed); v != "" {
				res.Viol = v + " (in the first quiescent state after Query returned)"
			}
		}
		atReturn()
		for _, e := range evs {
			if el := time.Since(start); e.at > el {
				time.Sleep(e.at - el)
			}
			synctest.Wait()
			switch e.kind {
			case "U":
				close(unblock)
			case "C":
				cancel()
			case "S":
				y.S.Close()
				closed = true
			case "R":
				if closed || returned {
					break
				}
				for _, o := range DecodeWrites(y.Conn.Writes()) {
					if o.Y() == "q" && o.To.String() == peer.String() {
						y.Conn.Inject(peer, sim.Reply(o.T(), sim.M{"id": sim.IDStr(peerID)}))
						replied = e.at
						break
					}
				}
			}
			synctest.Wait()
			atReturn()
		}
		for i := 0; i < 4*(n+3) && !limEmpty; i++ {
			time.Sleep(c14D / 4)
			synctest.Wait()
			atReturn()
		}
		if res.Viol != "" {
			return
		}
		if limEmpty {
			// one token per hour: a query whose every send waits for budget needs n hours plus the
			// last resend interval
			time.Sleep(time.Duration(n+1) * time.Hour)
		} else {
			time.Sleep(time.Duration(n+3) * c14D)
		}
		synctest.Wait()
		if !returned {
			horizon := time.Duration(n+3) * c14D
			if limEmpty {
				horizon = time.Duration(n+1) * time.Hour
			}
			res.Viol = fmt.Sprintf("no-return: Query did not return within %v of virtual time after the last event", horizon)
			return
		}
		// classify
		class := "other:" + fmt.Sprint(qr.Err)
		switch {
		case qr.Err == nil && qr.Reply.Y != "":
			class = "reply"
		case errors.Is(qr.Err, context.Canceled):
			class = "ctx"
		case errors.Is(qr.Err, dht.TransactionTimeout):
			class = "timeout"
		case qr.Err != nil && strings.Contains(qr.Err.Error(), "server is closed"):
			class = "closed"
		case qr.Err != nil && strings.Contains(qr.Err.Error(), "scripted send error"):
			class = "senderr"
		case qr.Err != nil && strings.Contains(qr.Err.Error(), "rate limit"):
			class = "ratelimit"
		}
		sends := countSends()
		outcome = fmt.Sprintf("%s sends=%d", class, sends)
		if checkedAtReturn && sends != sendsAtReturn {
			res.Viol = fmt.Sprintf("send-after-return: %d datagrams had been sent when Query returned, %d in the end", sendsAtReturn, sends)
			return
		}
		if sends > n {
			res.Viol = fmt.Sprintf("too-many-sends: %d datagrams for a query with NumTries=%d", sends, n)
			return
		}
		if int(qr.Writes) > sends {
			res.Viol = fmt.Sprintf("writes-count: result reports %d writes, the socket saw %d", int(qr.Writes), sends)
			return
		}
		if !limEmpty && blocked == 0 {
			// expected cause: the earliest decisive instant (ties accept either)
			inf := time.Duration(1 << 62)
			cand := map[string]time.Duration{"timeout": time.Duration(n) * c14D}
			if replied >= 0 {
				cand["reply"] = replied
			}
			if d, ok := c14Instant(p["C"]); ok {
				cand["ctx"] = d
			}
			if w := p["W"]; w != "none" {
				i, _ := strconv.Atoi(w)
				cand["senderr"] = time.Duration(i-1) * c14D
			}
			if d, ok := c14Instant(p["S"]); ok {
				// the first send at or after Close fails
				cl := inf
				for k := 0; k < n; k++ {
					if at := time.Duration(k) * c14D; at > d { // the send at instant 0 precedes every event
						cl = at
						break
					}
				}
				if cl < inf {
					cand["closed"] = cl
				}
			}
			best := inf
			for _, at := range cand {
				if at < best {
					best = at
				}
			}
			okc := false
			for k, at := range cand {
				// 1 ns grid: anything within 1 ns of the earliest instant is a same-instant tie
				if k == class && at-best <= time.Nanosecond {
					okc = true
				}
			}
			if !okc {
				res.Viol = fmt.Sprintf("wrong-outcome: query returned %q (err=%v); decisive instants %v", class, qr.Err, cand)
				return
			}
			if class == "reply" && qr.Reply.SenderID() == nil {
				res.Viol = "wrong-outcome: reply class without a reply"
				return
			}
		}
		if v := c14Cleanup(y, closed); v != "" {
			res.Viol = v
			return
		}
		if v := c14AfterClose(y); v != "" {
			res.Viol = v
			return
		}
	})
	if pan != "" && res.Viol == "" {
		res.Viol = "bubble: " + firstLineOf(pan)
	}
	res.Outcome = outcome
	res.Steps = 4
	return
}

// ---- part B/C: API calls and traversals ---------------------------------------------------------------------

// start conditions for traversals
func c14Start(name string) (opts []SysOpt, peers []*simPeer) {
	a := mkPeer("a", 1, 1, 1)
	b := mkPeer("b", 2, 1, 2)
	cpeer := mkPeer("c", 3, 2, 3)
	a.Nodes = []*simPeer{b, cpeer}
	b.Nodes = []*simPeer{a}
	starting := func(ps ...*simPeer) SysOpt {
		return func(c *dht.ServerConfig) {
			c.StartingNodes = func() ([]dht.Addr, error) {
				var out []dht.Addr
				for _, p := range ps {
					out = append(out, dht.NewAddr(p.Addr))
				}
				return out, nil
			}
		}
	}
	switch name {
	case "none":
		opts = append(opts, starting())
	case "nilfunc":
		opts = append(opts, func(c *dht.ServerConfig) { c.StartingNodes = nil })
	case "resolver-error":
		opts = append(opts, func(c *dht.ServerConfig) {
			c.StartingNodes = func() ([]dht.Addr, error) { return nil, errors.New("scripted resolver error") }
		})
	case "silent1":
		a.Silent = true
		opts = append(opts, starting(a))
		peers = []*simPeer{a}
	case "answer1":
		a.Nodes = nil
		opts = append(opts, starting(a))
		peers = []*simPeer{a}
	case "net3":
		cpeer.Silent = true
		opts = append(opts, starting(a))
		peers = []*simPeer{a, b, cpeer}
	case "two-one-silent":
		b.Silent = true
		a.Nodes = nil
		opts = append(opts, starting(a, b))
		peers = []*simPeer{a, b}
	case "holder-imm", "holder-mut":
		// a holds the value the get/put traversals look for and lists a silent and an answering node:
		// a lookup that finds its value returns while other queries are still in flight
		b.Silent = true
		b.Nodes, cpeer.Nodes = nil, nil
		a.Token = strp("tok:a")
		if name == "holder-imm" {
			a.Extra = sim.M{"v": "imm"}
		} else {
			pub := pubOf(bepKey1)
			a.Extra = sim.M{"v": "held", "k": string(pub[:]), "seq": 3, "sig": string(refSign(bepKey1, []byte("s"), 3, sim.Enc("held")))}
		}
		opts = append(opts, starting(a, b))
		peers = []*simPeer{a, b, cpeer}
	}
	opts = append(opts, func(c *dht.ServerConfig) { c.QueryResendDelay = func() time.Duration { return c14D } })
	return
}

var c14Starts = []string{"none", "nilfunc", "resolver-error", "silent1", "answer1", "net3", "two-one-silent", "holder-imm", "holder-mut"}
var c14Ops = []string{"bootstrap", "bootstrapctx", "announce", "announce-noport", "gp.get-mut", "gp.get-imm", "gp.put", "ping", "find_node", "get_peers", "get", "put"}
var c14Stops = []string{"never", "0", "500ms", "2500ms"}

func runC14Op(t *testing.T, c explore.Case) (res explore.Result) {
	p := kv(c.H)
	var outcome []string
	pan := Bubble(t, func() {
		opts, peers := c14Start(p["start"])
		y := NewSys(opts...)
		net := newSimNet(y, peers...)
		reps := 1
		if p["start"] == "none" || p["start"] == "resolver-error" || p["start"] == "nilfunc" {
			reps = 3
		}
		pub := pubOf(bepKey1)
		mt := bep44.Target(mutableTarget(pub, []byte("s")))
		it := bep44.Target(sha1.Sum(sim.Enc("imm")))
		targetUDP := sim.UDP4(60, 0, 0, 1, 6001)
		target := dht.NewAddr(targetUDP)
		for rep := 0; rep < reps; rep++ {
			ctx, cancel := context.WithCancel(context.Background())
			returned := false
			var retErr error
			var ann *dht.Announce
			stop := func() { cancel() }
			op := p["op"]
			go func() {
				switch op {
				case "bootstrap":
					_, retErr = y.S.Bootstrap()
				case "bootstrapctx":
					_, retErr = y.S.BootstrapContext(ctx)
				case "announce", "announce-noport":
					var o []dht.AnnounceOpt
					if op == "announce" {
						o = append(o, dht.AnnouncePeer(dht.AnnouncePeerOpts{Port: 6881}))
					}
					a, err := y.S.AnnounceTraversal(ihA, o...)
					retErr = err
					if err == nil {
						ann = a
						for range a.Peers {
						}
						<-a.Finished()
					}
				case "gp.get-mut":
					_, _, retErr = getput.Get(ctx, mt, y.S, nil, []byte("s"))
				case "gp.get-imm":
					_, _, retErr = getput.Get(ctx, it, y.S, nil, nil)
				case "gp.put":
					_, retErr = getput.Put(ctx, krpc.ID(mt), y.S, []byte("s"), func(seq int64) bep44.Put {
						pp := bep44.Put{V: "x", K: &pub, Salt: []byte("s"), Seq: seq + 1}
						pp.Sign(bepKey1)
						return pp
					})
				case "ping":
					retErr = y.S.Ping(targetUDP).Err
				case "find_node":
					retErr = y.S.FindNode(target, int160.FromByteArray(targetT), dht.QueryRateLimiting{}).Err
				case "get_peers":
					retErr = y.S.GetPeers(ctx, target, int160.FromByteArray(ihA), false, dht.QueryRateLimiting{}).Err
				case "get":
					retErr = y.S.Get(ctx, target, mt, nil, dht.QueryRateLimiting{}).Err
				case "put":
					retErr = y.S.Put(ctx, target, bep44.Put{V: "x"}, "tok", dht.QueryRateLimiting{}).Err
				}
				returned = true
			}()
			if strings.HasPrefix(op, "announce") {
				stop = func() {
					if ann != nil {
						if p["how"] == "stoptrav" {
							ann.StopTraversing()
						} else {
							ann.Close()
						}
					}
				}
			}
			stopAt, stopping := time.Duration(0), false
			switch p["stop"] {
			case "0":
				stopping = true
			case "500ms":
				stopAt, stopping = 500*time.Millisecond, true
			case "2500ms":
				stopAt, stopping = 2500*time.Millisecond, true
			}
			start := time.Now()
			stopped := false
			checkedAtReturn := false
			for step := 0; step < 80; step++ {
				synctest.Wait()
				// BootstrapContext returns at once when its context is cancelled; its find_node queries
				// take no context and end at their own time-out, so they are only checked at the horizon.
				if returned && !checkedAtReturn && !(op == "bootstrapctx" && stopping) {
					checkedAtReturn = true
					if v := c14Cleanup(y, false); v != "" {
						res.Viol = fmt.Sprintf("%s (in the first quiescent state after %s returned, start=%s stop=%s, repetition %d)", v, op, p["start"], p["stop"], rep)
						return
					}
				}
				if stopping && !stopped && time.Since(start) >= stopAt {
					stop()
					stopped = true
					synctest.Wait()
				}
				net.drain()
				time.Sleep(250 * time.Millisecond)
			}
			synctest.Wait()
			cancel()
			synctest.Wait()
			if !returned {
				res.Viol = fmt.Sprintf("no-return: %s (start=%s stop=%s, repetition %d) did not return within 20 s of virtual time", op, p["start"], p["stop"], rep)
				return
			}
			outcome = append(outcome, fmt.Sprintf("%v", retErr != nil))
			for _, q := range net.allQ {
				if q.Writes > 1 {
					res.Viol = fmt.Sprintf("too-many-sends: %d datagrams for one %s query to %s (default NumTries is 1)", q.Writes, q.Q, q.To)
					return
				}
			}
			if v := c14Cleanup(y, false); v != "" {
				res.Viol = fmt.Sprintf("%s (after %s, start=%s stop=%s, repetition %d)", v, op, p["start"], p["stop"], rep)
				return
			}
		}
		if v := c14AfterClose(y); v != "" {
			res.Viol = v
		}
	})
	if pan != "" && res.Viol == "" {
		res.Viol = "bubble: " + firstLineOf(pan)
	}
	res.Outcome = p["op"] + ":" + strings.Join(outcome, ",")
	res.Steps = 80
	return
}

// sync-level tier (schedule explorer), present only in overlay builds (build tag verife2)
var (
	c14SyncTier   func(t *testing.T, w *explore.Worker, idx *int)
	c14SyncReplay func(t *testing.T, c explore.Case) explore.Result
)

func runC14(t *testing.T, c explore.Case) explore.Result {
	if strings.HasPrefix(c.Unit, "sync;") {
		if c14SyncReplay == nil {
			return explore.Result{Viol: "HARNESS: sync tier not built"}
		}
		return c14SyncReplay(t, c)
	}
	if c.Unit == "query" {
		return runC14Query(t, c)
	}
	return runC14Op(t, c)
}

func init() { runners["C14"] = runC14 }

func TestC14(t *testing.T) {
	w := explore.NewWorker("C14")
	defer w.Finish()
	w.SetRule("fault/timing grid on the virtual clock (resend delay 1 s): one Query with NumTries 1..3 (thorough 1..4) x reply instant x ctx-cancel instant x Close instant (each in {never, right after the first send, d/2, k*d -/+ 1 ns}) x scripted socket write error on send i x a socket write stuck for half an interval (with reply / cancel / Close inside that window) x rate-limit options with a full or an empty limiter; every API call (Ping, FindNode, GetPeers, Get, Put) and traversal (Bootstrap, BootstrapContext, AnnounceTraversal with and without announce and with Close / StopTraversing, getput.Get mutable/immutable, getput.Put) under 9 start conditions (no starting nodes, nil resolver, resolver error, one silent node, one answering node, 3-node network with a silent member, two nodes one silent, a node holding the immutable / the mutable item next to a silent one) x stop instant (never, 0, 0.5 s, 2.5 s), failing starts repeated 3 times in one server; oracle: the call returns, with the cause whose decisive instant comes first, at most NumTries datagrams, no pending transaction, no goroutine with a frame in the module besides the serve loop, and after Close a new query fails without writing")
	idx := 0
	if c14SyncTier != nil {
		c14SyncTier(t, w, &idx)
	}
	run := func(unit string, h []string) {
		i := idx
		idx++
		if !w.Mine(i) {
			return
		}
		if w.OutOfTime() {
			w.Cap("time budget hit")
			return
		}
		c := explore.Case{Prop: "C14", Unit: unit, H: h}
		w.BeginUnit(i, unit)
		w.Journal(c)
		w.Record(c, runC14(t, c))
		w.Distinct(strings.Join(h, ";"))
	}
	// part A
	ns := []int{1, 2}
	if w.Thorough() {
		ns = []int{1, 2, 3, 4}
	}
	for _, n := range ns {
		grid := c14Grid(n)
		ws := []string{"none"}
		for i := 1; i <= n; i++ {
			ws = append(ws, strconv.Itoa(i))
		}
		for _, R := range grid {
			for _, C := range grid {
				for _, S := range grid {
					for _, W := range ws {
						if !w.Thorough() && W != "none" && S != "never" && C != "never" {
							continue // quick: at most two of the three disturbances together with a write error
						}
						run("query", []string{"n=" + strconv.Itoa(n), "R=" + R, "C=" + C, "S=" + S, "W=" + W, "rl=default", "lim=inf"})
						if R == "never" && C == "never" && W == "none" {
							// the same with an IP blocklist configured that covers nobody
							run("query", []string{"n=" + strconv.Itoa(n), "R=" + R, "C=" + C, "S=" + S, "W=" + W, "rl=default", "lim=inf", "blk=t"})
						}
					}
				}
			}
		}
		// a socket write that is stuck while the caller cancels / the reply arrives / the server closes
		for b := 1; b <= n; b++ {
			inside := fmt.Sprintf("%dq", b-1)
			gridB := append(append([]string(nil), grid...), inside)
			for _, R := range gridB {
				for _, C := range gridB {
					for _, S := range []string{"never", inside} {
						if R != inside && C != inside && S != inside {
							continue
						}
						run("query", []string{"n=" + strconv.Itoa(n), "R=" + R, "C=" + C, "S=" + S, "W=none", "rl=default", "lim=inf", "B=" + strconv.Itoa(b)})
					}
				}
			}
		}
		for _, rl := range []string{"default", "nowaitfirst", "waitonretries", "notany"} {
			for _, C := range grid {
				for _, S := range []string{"never", "h"} {
					for _, R := range []string{"never", "0"} {
						run("query", []string{"n=" + strconv.Itoa(n), "R=" + R, "C=" + C, "S=" + S, "W=none", "rl=" + rl, "lim=empty"})
					}
				}
			}
		}
	}
	// part B/C
	for _, op := range c14Ops {
		for _, st := range c14Starts {
			for _, stop := range c14Stops {
				hows := []string{"close"}
				if strings.HasPrefix(op, "announce") && stop != "never" {
					hows = []string{"close", "stoptrav"}
				}
				simple := op == "ping" || op == "find_node" || op == "get_peers" || op == "get" || op == "put"
				if simple && !(st == "silent1" || st == "answer1") {
					continue
				}
				if (op == "bootstrap" || op == "ping" || op == "find_node") && stop != "never" {
					continue
				}
				for _, how := range hows {
					run("op", []string{"op=" + op, "start=" + st, "stop=" + stop, "how=" + how})
				}
			}
		}
	}
}
