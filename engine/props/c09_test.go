package props

import (
	"context"
	"fmt"
	"net"
	"sort"
	"strconv"
	"strings"
	"testing"
	"testing/synctest"
	"time"

	"github.com/anacrolix/dht/v2"

	"verif/explore"
	"verif/sim"
)

// C09 — node lists in find_node / get_peers / get replies: only good contacts that answered, at
// most 8, distinct, right family and width, relative to the named target, nearest buckets first.
// Tables are built through real traffic; the reference selection works on the hook snapshot.

// bucket content options: list of entry kinds
//
//	g4/g6  answered our ping just now (good)
//	q4     answered our ping 16 minutes ago, silent since (questionable)
//	r4     answered 16 minutes ago and queried us just now (good by the BEP 5 rule)
//	n4/n6  only ever queried us (never responded)
//	b4     answered once, then failed a questionable-node ping (bad)
//	m4     like g4, but its IPv4 address reaches the node in 16-byte (IPv4-mapped) form
//	u4     queried us just now, then sent an unsolicited response (unknown t): never answered us
var c09Options = map[string][]string{
	"-":    {},
	"g":    {"g4"},
	"gg6":  {"g4", "g6"},
	"gm":   {"m4", "g6", "m4"},
	"mix":  {"g4", "q4", "b4", "n4", "r4", "u4"},
	"six":  {"g6", "n6", "g6"},
	"g5":   {"g4", "g4", "g4", "g4", "g4"},
	"g33":  {"g6", "g6", "g6", "g4", "g4", "g4"},
	"g8":   {"g4", "g4", "g4", "g4", "g4", "g4", "g4", "g4"},
	"old":  {"q4", "q4", "n4", "u4"},
	"g6x8": {"g6", "g6", "g6", "g6", "g6", "g6", "g6", "g6"},
}
var c09OptionOrder = []string{"-", "g", "gg6", "gm", "mix", "six", "g5", "g33", "g8", "old", "g6x8"}
var c09Buckets = []int{0, 1, 2, 5, 159}

type c09Entry struct {
	bucket int
	kind   string
	id     sim.ID
	addr   *net.UDPAddr
}

func c09ParseTable(s string) (es []c09Entry, err error) {
	n := 0
	for _, part := range strings.Split(s, "|") {
		if part == "" {
			continue
		}
		bs, opt, ok := strings.Cut(part, ":")
		kinds, ok2 := c09Options[opt]
		b, e := strconv.Atoi(bs)
		if !ok || !ok2 || e != nil {
			return nil, fmt.Errorf("bad table part %q", part)
		}
		for i, k := range kinds {
			n++
			var addr *net.UDPAddr
			if strings.HasSuffix(k, "6") {
				ip := net.ParseIP("2001:db8::")
				ip[7] = byte(b)
				ip[15] = byte(i + 1)
				addr = &net.UDPAddr{IP: ip, Port: 6000 + n}
			} else {
				addr = sim.UDP4(50, byte(b), 0, byte(i+1), 5000+n)
				if k == "m4" {
					addr = &net.UDPAddr{IP: addr.IP.To16(), Port: addr.Port}
				}
			}
			idn := i
			if b == 159 {
				idn = 0
				if i > 0 {
					continue // bucket 159 holds a single possible ID
				}
			}
			es = append(es, c09Entry{bucket: b, kind: k, id: sim.InBucket(sim.Root, b, idn), addr: addr})
		}
	}
	return
}

type c09Sys struct{ *Sys }

// c09NeverAnswered: entries that, by the harness' own log, never answered one of the server's
// queries (kinds n4, n6, u4), keyed like the snapshot ("addr|idhex"). One execution at a time.
var c09NeverAnswered = map[string]bool{}

func (y *c09Sys) ping(e c09Entry, answer bool) {
	done := make(chan struct{})
	go func() { y.S.Ping(e.addr); close(done) }()
	synctest.Wait()
	for _, o := range DecodeWrites(y.Take()) {
		if o.Y() == "q" && answer {
			y.Deliver(e.addr, sim.Reply(o.T(), sim.M{"id": sim.IDStr(e.id)}))
		}
	}
	time.Sleep(10 * time.Millisecond)
	synctest.Wait()
	<-done
}

func (y *c09Sys) queryFrom(e c09Entry) {
	y.Deliver(e.addr, sim.Query("bq", "ping", sim.M{"id": sim.IDStr(e.id)}))
}

func (y *c09Sys) failPing(e c09Entry) {
	done := make(chan struct{})
	go func() {
		y.S.VerifQuestionablePing(context.Background(), dht.NewAddr(e.addr), e.id)
		close(done)
	}()
	time.Sleep(20 * time.Millisecond)
	synctest.Wait()
	<-done
	y.Take()
}

func (y *c09Sys) build(es []c09Entry) {
	c09NeverAnswered = map[string]bool{}
	for _, e := range es {
		switch e.kind {
		case "n4", "n6", "u4":
			c09NeverAnswered[e.addr.String()+"|"+fmt.Sprintf("%x", e.id)] = true
		}
	}
	// phase 1: everything that must be old
	for _, e := range es {
		switch e.kind {
		case "q4", "r4":
			y.ping(e, true)
		}
	}
	time.Sleep(16 * time.Minute)
	synctest.Wait()
	for _, e := range es {
		switch e.kind {
		case "g4", "g6", "m4":
			y.ping(e, true)
		case "n4", "n6":
			y.queryFrom(e)
		case "r4":
			y.queryFrom(e)
		case "u4":
			y.queryFrom(e)
			y.Deliver(e.addr, sim.Reply("zz9", sim.M{"id": sim.IDStr(e.id)}))
		case "b4":
			y.ping(e, true)
			y.failPing(e)
		}
	}
	y.Take()
}

var c09Wants = map[string]interface{}{"none": nil, "n4": []interface{}{"n4"}, "n6": []interface{}{"n6"}, "both": []interface{}{"n4", "n6"}, "xx": []interface{}{"xx"}}
var c09WantOrder = []string{"none", "n4", "n6", "both", "xx"}

func c09Target(name string) sim.ID {
	if name == "root" {
		return sim.Root
	}
	b, _ := strconv.Atoi(name)
	n := 40
	if b >= 154 {
		n = 0
		if b == 158 {
			n = 1
		}
	}
	return sim.InBucket(sim.Root, b, n)
}

var c09Targets = []string{"root", "0", "1", "2", "3", "5", "158", "159"}
var c09Methods = []string{"find_node", "get_peers", "get"}

type c09Contact struct {
	id   sim.ID
	ip   net.IP
	port int
}

func parseCompact(s string, width int) (cs []c09Contact, ok bool) {
	if len(s)%width != 0 {
		return nil, false
	}
	for i := 0; i < len(s); i += width {
		var c c09Contact
		copy(c.id[:], s[i:i+20])
		c.ip = net.IP(s[i+20 : i+width-2])
		c.port = int(s[i+width-2])<<8 | int(s[i+width-1])
		cs = append(cs, c)
	}
	return cs, true
}

// c09CheckList validates one node list against the reference selection.
func (y *tblSys) c09CheckList(snap tblSnap, key string, raw string, present bool, wanted bool, fam int, target sim.ID) string {
	if !wanted {
		if present {
			return fmt.Sprintf("unwanted-list: %s sent to a requester that does not want that family", key)
		}
		return ""
	}
	width := 26
	if fam == 6 {
		width = 38
	}
	var cs []c09Contact
	if present {
		var ok bool
		cs, ok = parseCompact(raw, width)
		if !ok {
			return fmt.Sprintf("wrong-width: %s has %d bytes, not a multiple of %d", key, len(raw), width)
		}
	}
	if len(cs) > 8 {
		return fmt.Sprintf("too-many: %s lists %d contacts", key, len(cs))
	}
	b0 := 159
	if target != sim.Root {
		b0 = sim.CommonPrefixLen(sim.Root, target)
	}
	// eligible entries per bucket
	elig := map[int]map[string]bool{}
	total := 0
	for k, n := range snap.ByKey {
		is4 := net.IP(n.IP).To4() != nil
		if (fam == 4) != is4 {
			continue
		}
		if !y.refGood(snap.Now, n) || n.Id == sim.Root || n.Bucket > b0 || c09NeverAnswered[k] {
			continue
		}
		if elig[n.Bucket] == nil {
			elig[n.Bucket] = map[string]bool{}
		}
		elig[n.Bucket][k] = true
		total++
	}
	listed := map[int]map[string]bool{}
	seen := map[string]bool{}
	for _, c := range cs {
		k := (&net.UDPAddr{IP: c.ip, Port: c.port}).String() + "|" + fmt.Sprintf("%x", c.id)
		if seen[k] {
			return fmt.Sprintf("duplicate-contact: %s lists %s twice", key, k)
		}
		seen[k] = true
		n, inTable := snap.ByKey[k]
		if c.id == sim.Root {
			return fmt.Sprintf("lists-self: %s contains the responder itself", key)
		}
		if !inTable {
			return fmt.Sprintf("unknown-contact: %s lists %s which is not in the routing table", key, k)
		}
		if (fam == 4) != (net.IP(n.IP).To4() != nil) {
			return fmt.Sprintf("wrong-family: %s lists %s", key, k)
		}
		if n.LastGotResponse.IsZero() || c09NeverAnswered[k] {
			return fmt.Sprintf("never-answered: %s lists %s which never answered one of our queries", key, k)
		}
		if !y.refGood(snap.Now, n) {
			return fmt.Sprintf("not-good: %s lists %s which is not currently good", key, k)
		}
		if n.Bucket > b0 {
			return fmt.Sprintf("wrong-target: %s lists %s from bucket %d, but the named target lies in bucket %d", key, k, n.Bucket, b0)
		}
		if listed[n.Bucket] == nil {
			listed[n.Bucket] = map[string]bool{}
		}
		listed[n.Bucket][k] = true
	}
	// nearest buckets first: walking from b0 towards 0, once a bucket is not fully listed no
	// farther bucket may contribute
	short := false
	for j := b0; j >= 0; j-- {
		e := elig[j]
		l := listed[j]
		if short && len(l) > 0 {
			return fmt.Sprintf("farther-before-nearer: %s lists a contact of bucket %d although a good contact of a nearer bucket (>= target's bucket order) was omitted; target bucket %d", key, j, b0)
		}
		if len(l) < len(e) {
			short = true
		}
	}
	if len(cs) < 8 && len(cs) != total {
		return fmt.Sprintf("too-few: %s lists %d contacts although %d good ones are available in buckets <= %d", key, len(cs), total, b0)
	}
	if total >= 8 && len(cs) != 8 {
		return fmt.Sprintf("too-few: %s lists %d contacts although %d good ones are available", key, len(cs), total)
	}
	return ""
}

// Unit "table=<recipe>;cfg=<plain|ps>", H = ["<method>", "<target>"]: all wants x source families.
func runC09(t *testing.T, c explore.Case) (res explore.Result) {
	if strings.HasPrefix(c.Unit, "lin;") {
		if linReplays["C09"] == nil {
			return explore.Result{Viol: "HARNESS: serializability tier not built"}
		}
		return linReplays["C09"](t, c)
	}
	var recipe, cfgName string
	for _, kv := range strings.Split(c.Unit, ";") {
		if v, ok := strings.CutPrefix(kv, "table="); ok {
			recipe = v
		}
		if v, ok := strings.CutPrefix(kv, "cfg="); ok {
			cfgName = v
		}
	}
	es, err := c09ParseTable(recipe)
	if err != nil || len(c.H) < 2 {
		res.Viol = "HARNESS: bad case"
		return
	}
	method, tname := c.H[0], c.H[1]
	target := c09Target(tname)
	decoy := sim.InBucket(sim.Root, 0, 77)
	if sim.CommonPrefixLen(sim.Root, target) == 0 {
		decoy = sim.InBucket(sim.Root, 2, 77)
	}
	var sizes []string
	p := Bubble(t, func() {
		ty := &tblSys{Sys: NewSys(func(cfg *dht.ServerConfig) {
			cfg.QueryResendDelay = func() time.Duration { return time.Millisecond }
			if cfgName == "ps" {
				WithPeerStore()(cfg)
			}
		}), cfg: tblCfgs["plain"], peers: map[string]peer{}, byKey: map[string]string{}, start: time.Now()}
		y := &c09Sys{ty.Sys}
		defer y.Close()
		y.build(es)
		res.Steps = len(es)
		for _, wn := range c09WantOrder {
			for _, sn := range []string{"v4", "v6"} {
				a := sim.M{"id": sim.IDStr(peerID)}
				switch method {
				case "find_node", "get":
					a["target"] = sim.IDStr(target)
					a["info_hash"] = sim.IDStr(decoy)
				case "get_peers":
					a["info_hash"] = sim.IDStr(target)
					a["target"] = sim.IDStr(decoy)
				}
				if w := c09Wants[wn]; w != nil {
					a["want"] = w
				}
				snap := ty.snap()
				ws, _ := y.Deliver(sources[sn], sim.Query("nq", method, a))
				res.Steps++
				outs := DecodeWrites(ws)
				if len(outs) != 1 || outs[0].Y() != "r" {
					res.Viol = fmt.Sprintf("no-reply: %s from %s want=%s got %s", method, sn, wn, Briefs(ws))
					return
				}
				r := outs[0].R()
				nodes, has4 := sim.Str(r, "nodes")
				nodes6, has6 := sim.Str(r, "nodes6")
				if _, ok := r["nodes"]; ok && !has4 {
					res.Viol = "malformed-nodes: nodes is not a string"
					return
				}
				if _, ok := r["nodes6"]; ok && !has6 {
					res.Viol = "malformed-nodes: nodes6 is not a string"
					return
				}
				var want4, want6 bool
				switch wn {
				case "none":
					want4, want6 = sn == "v4", sn == "v6"
				case "n4":
					want4 = true
				case "n6":
					want6 = true
				case "both":
					want4, want6 = true, true
				}
				ctx := fmt.Sprintf(" [%s target=%s want=%s from=%s table=%s]", method, tname, wn, sn, recipe)
				if v := ty.c09CheckList(snap, "nodes", nodes, has4, want4, 4, target); v != "" {
					res.Viol = v + ctx
					return
				}
				if v := ty.c09CheckList(snap, "nodes6", nodes6, has6, want6, 6, target); v != "" {
					res.Viol = v + ctx
					return
				}
				sizes = append(sizes, fmt.Sprintf("%d/%d", len(nodes)/26, len(nodes6)/38))
			}
		}
	})
	if p != "" && res.Viol == "" {
		res.Viol = "panic: " + p
	}
	sort.Strings(sizes)
	res.Outcome = strings.Join(sizes, ",")
	if len(res.Outcome) > 60 {
		res.Outcome = res.Outcome[:60]
	}
	return
}

func init() { runners["C09"] = runC09 }

func c09Tables(thorough bool) (ts []string) {
	// all assignments of options to buckets with at most 2 (quick) / 4 (thorough) non-empty buckets
	max := 2
	if thorough {
		max = 4
	}
	var rec func(i int, parts []string)
	rec = func(i int, parts []string) {
		if i == len(c09Buckets) {
			ts = append(ts, strings.Join(parts, "|"))
			return
		}
		rec(i+1, parts)
		if len(parts) >= max {
			return
		}
		for _, o := range c09OptionOrder[1:] {
			if c09Buckets[i] == 159 && o != "g" && o != "old" {
				continue
			}
			rec(i+1, append(append([]string(nil), parts...), fmt.Sprintf("%d:%s", c09Buckets[i], o)))
		}
	}
	rec(0, nil)
	// hand-shaped large tables
	ts = append(ts, "0:g8|1:g8|2:g8|5:g8", "0:g33|1:g33|2:g33|5:g33", "0:mix|1:mix|2:mix|5:mix|159:g", "0:g6x8|1:g8|2:g6x8|5:g5",
		"0:g5|1:g5|2:g5|5:g5|159:g", "0:old|1:g8|2:old|5:g6x8")
	return
}

func TestC09(t *testing.T) {
	w := explore.NewWorker("C09")
	defer w.Finish()
	w.SetRule("routing tables built through real traffic from recipes (per bucket in {0,1,2,5,159} one of 10 contents mixing good v4/v6, questionable, good-by-recent-query, never-responded and failed-ping entries; all assignments with at most 2 (quick) / 4 (thorough) non-empty buckets plus 6 large hand-shaped tables) x targets {own ID, an ID in buckets 0,1,2,3,5,158,159} x {find_node(target), get_peers(info_hash), get(target)} each with a decoy ID in the other field x want in {absent, n4, n6, both, xx} x source family; node lists parsed from raw bytes and compared with a set-level reference selection on the table snapshot")
	tables := c09Tables(w.Thorough())
	w.Bound("tables", len(tables))
	idx := 0
	if lt := linTiers["C09"]; lt != nil {
		lt(t, w, &idx)
	}
	for _, cfgName := range []string{"plain", "ps"} {
		for ti, tb := range tables {
			if cfgName == "ps" && ti%7 != 0 {
				continue
			}
			u := idx
			idx++
			if !w.Mine(u) {
				continue
			}
			if w.OutOfTime() {
				w.Cap("time budget hit before table " + tb)
				continue
			}
			unit := "table=" + tb + ";cfg=" + cfgName
			w.BeginUnit(u, unit)
			for _, m := range c09Methods {
				for _, tg := range c09Targets {
					c := explore.Case{Prop: "C09", Unit: unit, H: []string{m, tg}}
					w.Journal(c)
					r := runC09(t, c)
					w.Record(c, r)
				}
			}
			w.AddStates(1)
			w.Flush(false)
		}
	}
}
