#include "textflag.h"

// func getg() unsafe.Pointer
TEXT ·getg(SB),NOSPLIT,$0-8
	MOVQ (TLS), BX
	MOVQ BX, ret+0(FP)
	RET
