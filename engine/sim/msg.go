package sim

import (
	"bytes"
	"fmt"
	"net"
	"regexp"
	"runtime"
	"sort"
	"strings"

	"github.com/anacrolix/torrent/bencode"
)

// M is a generic bencode dictionary. Oracles decode datagrams into M (never into krpc.Msg) so
// that the codec under test is not part of its own oracle.
type M = map[string]interface{}

func Enc(v interface{}) []byte { return bencode.MustMarshal(v) }

func Dec(b []byte) (M, error) {
	var v interface{}
	if err := bencode.Unmarshal(b, &v); err != nil {
		if _, ok := err.(bencode.ErrUnusedTrailingBytes); !ok {
			return nil, err
		}
	}
	m, ok := v.(map[string]interface{})
	if !ok {
		return nil, fmt.Errorf("not a dict: %T", v)
	}
	return m, nil
}

func Str(m M, k string) (string, bool) {
	s, ok := m[k].(string)
	return s, ok
}

func Dict(m M, k string) M {
	d, _ := m[k].(map[string]interface{})
	return d
}

// Query builds a well-formed query datagram.
func Query(tid, method string, args M) []byte {
	m := M{"t": tid, "y": "q", "q": method}
	if args != nil {
		m["a"] = args
	}
	return Enc(m)
}

func Reply(tid string, r M) []byte {
	return Enc(M{"t": tid, "y": "r", "r": r})
}

func ErrorMsg(tid string, code int, msg string) []byte {
	return Enc(M{"t": tid, "y": "e", "e": []interface{}{code, msg}})
}

// ---- IDs -------------------------------------------------------------------------------------

type ID = [20]byte

// Root is the server ID used by most scenarios: 0x80 00 … 00.
var Root = ID{0x80}

func getBit(id ID, i int) bool { return id[i/8]>>(7-uint(i%8))&1 == 1 }
func flipBit(id *ID, i int)    { id[i/8] ^= 1 << (7 - uint(i%8)) }

// InBucket returns the n-th (n>=0) distinct ID whose shared bit prefix with root is exactly i
// bits (i in 0..159). Distinctness is carried in the trailing bits, so n must be < 2^(159-i)
// and < 2^16.
func InBucket(root ID, i, n int) ID {
	id := root
	flipBit(&id, i)
	avail := 159 - i
	if avail < 16 && n >= 1<<uint(avail) {
		panic(fmt.Sprintf("bucket %d has no %d-th id", i, n))
	}
	id[19] ^= byte(n)
	id[18] ^= byte(n >> 8)
	return id
}

// CommonPrefixLen is an independent (bit loop) reference.
func CommonPrefixLen(a, b ID) int {
	for i := 0; i < 160; i++ {
		if getBit(a, i) != getBit(b, i) {
			return i
		}
	}
	return 160
}

func XorLess(target, a, b ID) bool {
	for i := 0; i < 20; i++ {
		x, y := a[i]^target[i], b[i]^target[i]
		if x != y {
			return x < y
		}
	}
	return false
}

func IDStr(id ID) string { return string(id[:]) }

// ---- addresses -------------------------------------------------------------------------------

func UDP4(a, b, c, d byte, port int) *net.UDPAddr {
	return &net.UDPAddr{IP: net.IP{a, b, c, d}, Port: port}
}

func UDP(ip string, port int) *net.UDPAddr {
	p := net.ParseIP(ip)
	if p4 := p.To4(); p4 != nil && !strings.Contains(ip, ":") {
		p = p4
	}
	return &net.UDPAddr{IP: p, Port: port}
}

// Compact encodes ip (4 or 16 bytes as given) and port.
func Compact(ip net.IP, port int) string {
	var b bytes.Buffer
	b.Write(ip)
	b.WriteByte(byte(port >> 8))
	b.WriteByte(byte(port))
	return b.String()
}

func CompactNode(id ID, ip net.IP, port int) string {
	return string(id[:]) + Compact(ip, port)
}

// ---- goroutine inspection ----------------------------------------------------------------------

var goroutineHdr = regexp.MustCompile(`(?m)^goroutine (\d+) \[([^\]]*)\]:$`)

var bubbleRe = regexp.MustCompile(`synctest bubble \d+`)

type Goroutine struct {
	ID    string
	State string
	Stack string
}

// ModuleGoroutines returns goroutines of the current bubble (if any marker is present) that have
// a frame in the module under test.
var stackBuf = make([]byte, 1<<18)

func ModuleGoroutines() (ret []Goroutine) {
	var buf []byte
	for {
		n := runtime.Stack(stackBuf, true)
		if n < len(stackBuf) {
			buf = stackBuf[:n]
			break
		}
		stackBuf = make([]byte, 2*len(stackBuf))
	}
	// Restrict to the caller's bubble: goroutines stranded by earlier executions of the same process
	// live on in their own (dead) bubbles and must not be attributed to this one.
	mine := ""
	var self [256]byte
	if m := bubbleRe.FindSubmatch(self[:runtime.Stack(self[:], false)]); m != nil {
		mine = string(m[0])
	}
	for _, blk := range strings.Split(string(buf), "\n\n") {
		m := goroutineHdr.FindStringSubmatch(blk)
		if m == nil {
			continue
		}
		if mine != "" && !strings.Contains(m[2], mine) {
			continue
		}
		if !strings.Contains(blk, "github.com/anacrolix/dht/v2") {
			continue
		}
		ret = append(ret, Goroutine{ID: m[1], State: m[2], Stack: blk})
	}
	return
}

// TopFuncs summarises goroutines by their innermost module frame.
func TopFuncs(gs []Goroutine) []string {
	var out []string
	for _, g := range gs {
		f := "?"
		for _, ln := range strings.Split(g.Stack, "\n") {
			if strings.HasPrefix(ln, "github.com/anacrolix/dht/v2") {
				f = ln
				if i := strings.LastIndex(f, "("); i > 0 {
					f = f[:i]
				}
				break
			}
		}
		out = append(out, f)
	}
	sort.Strings(out)
	return out
}
