package props

import (
	"bytes"
	"encoding/hex"
	"fmt"
	"net"
	"os"
	"path/filepath"
	"reflect"
	"strconv"
	"strings"
	"testing"

	"github.com/anacrolix/dht/v2"
	"github.com/anacrolix/dht/v2/krpc"
	"github.com/anacrolix/torrent/bencode"

	"verif/explore"
)

// C15 — KRPC codec: round trip, fixpoint, no panic, compact-length rule. Pure functions.

func guard(f func()) (panicked string) {
	defer func() {
		if r := recover(); r != nil {
			panicked = fmt.Sprint(r)
		}
	}()
	f()
	return
}

// ---- normalisation for deep equality: IPs by value (16-byte form), nil == empty slices -----------

func normIP(ip net.IP) net.IP {
	if len(ip) == 0 {
		return nil
	}
	if x := ip.To16(); x != nil {
		return x
	}
	return ip
}

func normNodes(ns []krpc.NodeInfo) []krpc.NodeInfo {
	if len(ns) == 0 {
		return nil
	}
	out := make([]krpc.NodeInfo, len(ns))
	for i, n := range ns {
		n.Addr.IP = normIP(n.Addr.IP)
		out[i] = n
	}
	return out
}

func normV(v interface{}) interface{} {
	switch x := v.(type) {
	case []interface{}:
		if len(x) == 0 {
			return []interface{}{}
		}
		out := make([]interface{}, len(x))
		for i := range x {
			out[i] = normV(x[i])
		}
		return out
	case map[string]interface{}:
		out := map[string]interface{}{}
		for k, e := range x {
			out[k] = normV(e)
		}
		return out
	case int:
		return int64(x)
	}
	return v
}

func normMsg(m krpc.Msg) krpc.Msg {
	m.IP.IP = normIP(m.IP.IP)
	if m.A != nil {
		a := *m.A
		if len(a.Want) == 0 {
			a.Want = nil
		}
		if len(a.Salt) == 0 {
			a.Salt = nil
		}
		a.V = normV(a.V)
		m.A = &a
	}
	if m.R != nil {
		r := *m.R
		r.Nodes = normNodes(r.Nodes)
		r.Nodes6 = normNodes(r.Nodes6)
		if len(r.Values) == 0 {
			r.Values = nil
		} else {
			vs := make([]krpc.NodeAddr, len(r.Values))
			for i, v := range r.Values {
				vs[i] = krpc.NodeAddr{IP: normIP(v.IP), Port: v.Port}
			}
			r.Values = vs
		}
		if r.Samples != nil && len(*r.Samples) == 0 {
			e := krpc.CompactInfohashes(nil)
			r.Samples = &e
		}
		if len(r.V) == 0 {
			r.V = nil
		}
		m.R = &r
	}
	return m
}

func c15RoundTrip(m krpc.Msg) (viol string) {
	if p := guard(func() {
		b, err := bencode.Marshal(m)
		if err != nil {
			viol = fmt.Sprintf("encode-failed: %v for %+v", err, descMsg(m))
			return
		}
		var d krpc.Msg
		if err := bencode.Unmarshal(b, &d); err != nil {
			viol = fmt.Sprintf("decode-of-own-encoding-failed: %v for %q", err, b)
			return
		}
		if !reflect.DeepEqual(normMsg(m), normMsg(d)) {
			viol = fmt.Sprintf("roundtrip-mismatch: %q decodes to %s, encoded from %s", b, descMsg(d), descMsg(m))
			return
		}
	}); p != "" {
		viol = "panic: " + p + " for " + descMsg(m)
	}
	return
}

func descMsg(m krpc.Msg) string {
	s := fmt.Sprintf("{Q:%q T:%q Y:%q ro:%v v:%q ip:%v", m.Q, m.T, m.Y, m.ReadOnly, m.ClientId, m.IP)
	if m.A != nil {
		s += fmt.Sprintf(" A:%+v", *m.A)
	}
	if m.R != nil {
		s += fmt.Sprintf(" R:%+v", *m.R)
	}
	if m.E != nil {
		s += fmt.Sprintf(" E:%+v", *m.E)
	}
	if len(s) > 900 {
		s = s[:900] + "..."
	}
	return s + "}"
}

// c15Fixpoint: for a datagram that decodes, re-encoding succeeds and is a fixpoint; nothing panics.
// nontrivial reports whether the datagram decoded.
func c15Fixpoint(d []byte) (viol string, nontrivial bool) {
	if p := guard(func() {
		var m krpc.Msg
		err := bencode.Unmarshal(d, &m)
		if _, trailing := err.(bencode.ErrUnusedTrailingBytes); err != nil && !trailing {
			return
		}
		nontrivial = true
		e1, err := bencode.Marshal(m)
		if err != nil {
			viol = fmt.Sprintf("reencode-failed: %q decodes but does not re-encode: %v", d, err)
			return
		}
		var m2 krpc.Msg
		if err := bencode.Unmarshal(e1, &m2); err != nil {
			viol = fmt.Sprintf("reencoded-undecodable: %q -> %q: %v", d, e1, err)
			return
		}
		e2, err := bencode.Marshal(m2)
		if err != nil || !bytes.Equal(e1, e2) {
			viol = fmt.Sprintf("not-a-fixpoint: %q -> %q -> %q (%v)", d, e1, e2, err)
		}
	}); p != "" {
		viol = fmt.Sprintf("panic: %s decoding/encoding %q", p, d)
	}
	return
}

// ---- message grammar -----------------------------------------------------------------------------

func ptr[T any](v T) *T { return &v }

var (
	idTyp  = krpc.ID{1, 2, 3, 4, 5, 6, 7, 8, 9, 10, 11, 12, 13, 14, 15, 16, 17, 18, 19, 20}
	idHigh = krpc.ID{0xff, 0xfe, 0, 0, 0, 0, 0, 0, 0, 0, 0, 0, 0, 0, 0, 0, 0, 0, 0x80, 0x00}
)

func n4(i byte, form16 bool) krpc.NodeInfo {
	ip := net.IP{10, 1, 2, i}
	if form16 {
		ip = ip.To16()
	}
	return krpc.NodeInfo{ID: krpc.ID{i, 0xaa, 19: i}, Addr: krpc.NodeAddr{IP: ip, Port: 1000 + int(i)}}
}
func n6(i byte) krpc.NodeInfo {
	ip := net.ParseIP("2001:db8::")
	ip[15] = i
	return krpc.NodeInfo{ID: krpc.ID{i, 0xbb, 19: i}, Addr: krpc.NodeAddr{IP: ip, Port: 65535 - int(i)}}
}

type fieldAlt struct {
	name string
	alts []func(m *krpc.Msg)
}

func argFields() []fieldAlt {
	a := func(f func(a *krpc.MsgArgs)) func(m *krpc.Msg) { return func(m *krpc.Msg) { f(m.A) } }
	nop := func(m *krpc.Msg) {}
	big := strings.Repeat("\x00\xffz", 100)
	return []fieldAlt{
		{"id", []func(*krpc.Msg){nop, a(func(a *krpc.MsgArgs) { a.ID = idTyp }), a(func(a *krpc.MsgArgs) { a.ID = idHigh })}},
		{"info_hash", []func(*krpc.Msg){nop, a(func(a *krpc.MsgArgs) { a.InfoHash = idTyp })}},
		{"target", []func(*krpc.Msg){nop, a(func(a *krpc.MsgArgs) { a.Target = idHigh })}},
		{"token", []func(*krpc.Msg){nop, a(func(a *krpc.MsgArgs) { a.Token = "tok" }), a(func(a *krpc.MsgArgs) { a.Token = big })}},
		{"port", []func(*krpc.Msg){nop, a(func(a *krpc.MsgArgs) { a.Port = ptr(0) }), a(func(a *krpc.MsgArgs) { a.Port = ptr(1) }), a(func(a *krpc.MsgArgs) { a.Port = ptr(65535) })}},
		{"implied_port", []func(*krpc.Msg){nop, a(func(a *krpc.MsgArgs) { a.ImpliedPort = true })}},
		{"want", []func(*krpc.Msg){nop, a(func(a *krpc.MsgArgs) { a.Want = []krpc.Want{} }), a(func(a *krpc.MsgArgs) { a.Want = []krpc.Want{"n4"} }), a(func(a *krpc.MsgArgs) { a.Want = []krpc.Want{"n4", "n6"} }), a(func(a *krpc.MsgArgs) { a.Want = []krpc.Want{"xx", ""} })}},
		{"noseed", []func(*krpc.Msg){nop, a(func(a *krpc.MsgArgs) { a.NoSeed = 1 })}},
		{"scrape", []func(*krpc.Msg){nop, a(func(a *krpc.MsgArgs) { a.Scrape = 1 })}},
		{"v", []func(*krpc.Msg){nop, a(func(a *krpc.MsgArgs) { a.V = int64(-7) }), a(func(a *krpc.MsgArgs) { a.V = "hello" }), a(func(a *krpc.MsgArgs) { a.V = "" }),
			a(func(a *krpc.MsgArgs) { a.V = []interface{}{int64(1), "two", []interface{}{}} }),
			a(func(a *krpc.MsgArgs) { a.V = map[string]interface{}{"b": int64(2), "a": "x", "": []interface{}{"n"}} }),
			a(func(a *krpc.MsgArgs) { a.V = strings.Repeat("v", 1000) })}},
		{"seq", []func(*krpc.Msg){nop, a(func(a *krpc.MsgArgs) { a.Seq = ptr(int64(0)) }), a(func(a *krpc.MsgArgs) { a.Seq = ptr(int64(1)) }), a(func(a *krpc.MsgArgs) { a.Seq = ptr(int64(-1)) }), a(func(a *krpc.MsgArgs) { a.Seq = ptr(int64(1<<63 - 1)) })}},
		{"cas", []func(*krpc.Msg){nop, a(func(a *krpc.MsgArgs) { a.Cas = 1 }), a(func(a *krpc.MsgArgs) { a.Cas = -1 << 63 })}},
		{"k", []func(*krpc.Msg){nop, a(func(a *krpc.MsgArgs) { a.K = [32]byte{1, 31: 9} })}},
		{"salt", []func(*krpc.Msg){nop, a(func(a *krpc.MsgArgs) { a.Salt = []byte{} }), a(func(a *krpc.MsgArgs) { a.Salt = []byte{0} }), a(func(a *krpc.MsgArgs) { a.Salt = bytes.Repeat([]byte{7}, 64) })}},
		{"sig", []func(*krpc.Msg){nop, a(func(a *krpc.MsgArgs) { a.Sig = [64]byte{0xff, 63: 1} })}},
	}
}

func retFields() []fieldAlt {
	r := func(f func(r *krpc.Return)) func(m *krpc.Msg) { return func(m *krpc.Msg) { f(m.R) } }
	nop := func(m *krpc.Msg) {}
	nine4 := func() (ns []krpc.NodeInfo) {
		for i := byte(1); i <= 9; i++ {
			ns = append(ns, n4(i, i%2 == 0))
		}
		return
	}
	nine6 := func() (ns []krpc.NodeInfo) {
		for i := byte(1); i <= 9; i++ {
			ns = append(ns, n6(i))
		}
		return
	}
	var bf krpc.ScrapeBloomFilter
	bf.AddIp(net.IP{1, 2, 3, 4})
	return []fieldAlt{
		{"id", []func(*krpc.Msg){nop, r(func(r *krpc.Return) { r.ID = idTyp })}},
		{"nodes", []func(*krpc.Msg){nop, r(func(r *krpc.Return) { r.Nodes = krpc.CompactIPv4NodeInfo{} }), r(func(r *krpc.Return) { r.Nodes = krpc.CompactIPv4NodeInfo{n4(1, false)} }),
			r(func(r *krpc.Return) { r.Nodes = krpc.CompactIPv4NodeInfo{n4(1, true), n4(2, false)} }), r(func(r *krpc.Return) { r.Nodes = nine4() })}},
		{"nodes6", []func(*krpc.Msg){nop, r(func(r *krpc.Return) { r.Nodes6 = krpc.CompactIPv6NodeInfo{n6(1)} }), r(func(r *krpc.Return) { r.Nodes6 = krpc.CompactIPv6NodeInfo{n6(1), n6(2)} }), r(func(r *krpc.Return) { r.Nodes6 = nine6() })}},
		{"token", []func(*krpc.Msg){nop, r(func(r *krpc.Return) { r.Token = ptr("") }), r(func(r *krpc.Return) { r.Token = ptr("t\x00k") })}},
		{"values", []func(*krpc.Msg){nop, r(func(r *krpc.Return) { r.Values = []krpc.NodeAddr{} }), r(func(r *krpc.Return) { r.Values = []krpc.NodeAddr{{IP: net.IP{1, 2, 3, 4}, Port: 1}} }),
			r(func(r *krpc.Return) { r.Values = []krpc.NodeAddr{{IP: net.ParseIP("2001:db8::9"), Port: 65535}} }),
			r(func(r *krpc.Return) {
				r.Values = []krpc.NodeAddr{{IP: net.IP{1, 2, 3, 4}, Port: 0}, {IP: net.ParseIP("2001:db8::9"), Port: 80}, {IP: net.IP{9, 9, 9, 9}, Port: 443}}
			})}},
		{"BFsd", []func(*krpc.Msg){nop, r(func(r *krpc.Return) { r.BFsd = &krpc.ScrapeBloomFilter{} }), r(func(r *krpc.Return) { b := bf; r.BFsd = &b })}},
		{"BFpe", []func(*krpc.Msg){nop, r(func(r *krpc.Return) { b := bf; r.BFpe = &b })}},
		{"interval", []func(*krpc.Msg){nop, r(func(r *krpc.Return) { r.Interval = ptr(int64(0)) }), r(func(r *krpc.Return) { r.Interval = ptr(int64(21600)) })}},
		{"num", []func(*krpc.Msg){nop, r(func(r *krpc.Return) { r.Num = ptr(int64(0)) }), r(func(r *krpc.Return) { r.Num = ptr(int64(1 << 40)) })}},
		{"samples", []func(*krpc.Msg){nop, r(func(r *krpc.Return) { r.Samples = &krpc.CompactInfohashes{} }), r(func(r *krpc.Return) { r.Samples = &krpc.CompactInfohashes{idTyp, idHigh} })}},
		{"v", []func(*krpc.Msg){nop, r(func(r *krpc.Return) { r.V = bencode.Bytes("i1e") }), r(func(r *krpc.Return) { r.V = bencode.Bytes("3:abc") }), r(func(r *krpc.Return) { r.V = bencode.Bytes("l1:ad1:bi2eee") })}},
		{"k", []func(*krpc.Msg){nop, r(func(r *krpc.Return) { r.K = [32]byte{5, 31: 6} })}},
		{"sig", []func(*krpc.Msg){nop, r(func(r *krpc.Return) { r.Sig = [64]byte{7, 63: 8} })}},
		{"seq", []func(*krpc.Msg){nop, r(func(r *krpc.Return) { r.Seq = ptr(int64(0)) }), r(func(r *krpc.Return) { r.Seq = ptr(int64(-1)) }), r(func(r *krpc.Return) { r.Seq = ptr(int64(1<<63 - 1)) })}},
	}
}

func topAlts() []fieldAlt {
	nop := func(m *krpc.Msg) {}
	return []fieldAlt{
		{"t", []func(*krpc.Msg){nop, func(m *krpc.Msg) { m.T = "aa" }, func(m *krpc.Msg) { m.T = "\x00\xff" }, func(m *krpc.Msg) { m.T = strings.Repeat("t", 300) }}},
		{"ip", []func(*krpc.Msg){nop, func(m *krpc.Msg) { m.IP = krpc.NodeAddr{IP: net.IP{8, 8, 8, 8}, Port: 53} }, func(m *krpc.Msg) { m.IP = krpc.NodeAddr{IP: net.ParseIP("2001:db8::1"), Port: 1} }}},
		{"ro", []func(*krpc.Msg){nop, func(m *krpc.Msg) { m.ReadOnly = true }}},
		{"v", []func(*krpc.Msg){nop, func(m *krpc.Msg) { m.ClientId = "LT\x01\x02" }}},
	}
}

// genMsgs enumerates: for each base (y, q), the default message; every single field alternative;
// every pair of alternatives of two different fields (pairwise interaction, complete); and the
// full product over the pointer/omitempty fields (presence combinations).
func genMsgs(emit func(desc string, m krpc.Msg)) {
	type base struct {
		name   string
		mk     func() krpc.Msg
		fields []fieldAlt
		full   []string // fields whose full product is taken
	}
	var bases []base
	for _, q := range []string{"ping", "find_node", "get_peers", "announce_peer", "get", "put", "sample_infohashes", ""} {
		q := q
		bases = append(bases, base{"q:" + q, func() krpc.Msg { return krpc.Msg{Y: "q", Q: q, T: "t1", A: &krpc.MsgArgs{}} },
			append(argFields(), topAlts()...), []string{"port", "seq", "token", "want", "v", "salt", "k", "sig"}})
	}
	bases = append(bases, base{"r", func() krpc.Msg { return krpc.Msg{Y: "r", T: "t1", R: &krpc.Return{}} },
		append(retFields(), topAlts()...), []string{"token", "BFsd", "BFpe", "interval", "num", "samples", "seq", "v", "values"}})
	for _, e := range []krpc.Error{{Code: 201, Msg: "A Generic Error Ocurred"}, {Code: 0, Msg: ""}, {Code: 204, Msg: strings.Repeat("m", 300)}, {Code: -5, Msg: "neg"}, {Code: 1 << 40, Msg: "big"}} {
		e := e
		bases = append(bases, base{fmt.Sprintf("e:%d", e.Code), func() krpc.Msg { return krpc.Msg{Y: "e", T: "t1", E: &e} }, topAlts(), nil})
	}
	bases = append(bases, base{"q-noargs", func() krpc.Msg { return krpc.Msg{Y: "q", Q: "ping", T: "x"} }, topAlts(), nil})
	for _, b := range bases {
		emit(b.name+" default", b.mk())
		for i, f := range b.fields {
			for ai := 1; ai < len(f.alts); ai++ {
				m := b.mk()
				f.alts[ai](&m)
				emit(fmt.Sprintf("%s %s#%d", b.name, f.name, ai), m)
				for j := i + 1; j < len(b.fields); j++ {
					g := b.fields[j]
					for bi := 1; bi < len(g.alts); bi++ {
						m := b.mk()
						f.alts[ai](&m)
						g.alts[bi](&m)
						emit(fmt.Sprintf("%s %s#%d %s#%d", b.name, f.name, ai, g.name, bi), m)
					}
				}
			}
		}
		if len(b.full) > 0 && (b.name == "r" || b.name == "q:put" || b.name == "q:announce_peer") {
			var fs []fieldAlt
			for _, n := range b.full {
				for _, f := range b.fields {
					if f.name == n && f.alts != nil {
						fs = append(fs, f)
						break
					}
				}
			}
			var rec func(i int, pick []int)
			rec = func(i int, pick []int) {
				if i == len(fs) {
					m := b.mk()
					d := b.name + " full"
					for k, p := range pick {
						fs[k].alts[p](&m)
						d += fmt.Sprintf(" %s#%d", fs[k].name, p)
					}
					emit(d, m)
					return
				}
				lim := len(fs[i].alts)
				if lim > 3 {
					lim = 3
				}
				for p := 0; p < lim; p++ {
					rec(i+1, append(pick, p))
				}
			}
			rec(0, nil)
		}
	}
}

// ---- corpus for the byte neighbourhood --------------------------------------------------------

// c15CorpusPanic: a panic while encoding a generated (well-formed) message for the corpus.
var c15CorpusPanic string

func c15Corpus() (c [][]byte) {
	n := 0
	genMsgs(func(desc string, m krpc.Msg) {
		n++
		if n%97 == 1 && len(c) < 34 {
			func() {
				defer func() {
					if r := recover(); r != nil && c15CorpusPanic == "" {
						c15CorpusPanic = fmt.Sprintf("panic: encoding the well-formed message %s panicked: %v", desc, r)
					}
				}()
				if b, err := bencode.Marshal(m); err == nil && len(b) < 400 {
					c = append(c, b)
				}
			}()
		}
	})
	id := strings.Repeat("A", 20)
	raw := []string{
		"d1:ad2:id20:" + id + "e1:q4:ping1:t2:aa1:y1:qe",
		"d1:ad2:id20:" + id + "6:target20:" + id + "e1:q9:find_node1:t2:aa1:y1:qe",
		"d1:rd2:id20:" + id + "5:nodes26:" + id + "\x01\x02\x03\x04\x1a\xe1e1:t2:aa1:y1:re",
		"d1:eli201e23:A Generic Error Ocurrede1:t2:aa1:y1:ee",
		"d1:e5:oops!1:t2:aa1:y1:ee",
		"d1:rd2:id20:" + id + "6:valuesl6:\x01\x02\x03\x04\x00\x5018:" + strings.Repeat("\x20", 16) + "\x00\x50ee1:t1:x1:y1:re",
		"d2:ip6:\x01\x02\x03\x04\x00\x071:rd2:id20:" + id + "e1:t1:x1:y1:re",
		"d1:ad2:id20:" + id + "9:info_hash20:" + id + "4:porti6881e5:token3:abce1:q13:announce_peer2:roi1e1:t1:x1:v4:LT\x00\x011:y1:qe",
	}
	for _, r := range raw {
		c = append(c, []byte(r))
	}
	return
}

var c15Subst = []byte{'d', 'l', 'i', 'e', ':', '0', '9', '-', 0x00, 0xff}

// ---- compact decoders -------------------------------------------------------------------------

type compactDec struct {
	name string
	size int // 0: not a list
	// dec decodes b and, on success, re-encodes
	dec func(b []byte) (reenc []byte, err error)
}

func compactDecs() []compactDec {
	return []compactDec{
		{"CompactIPv4NodeAddrs", 6, func(b []byte) ([]byte, error) {
			var x krpc.CompactIPv4NodeAddrs
			if err := x.UnmarshalBinary(b); err != nil {
				return nil, err
			}
			return x.MarshalBinary()
		}},
		{"CompactIPv6NodeAddrs", 18, func(b []byte) ([]byte, error) {
			var x krpc.CompactIPv6NodeAddrs
			if err := x.UnmarshalBinary(b); err != nil {
				return nil, err
			}
			return x.MarshalBinary()
		}},
		{"CompactIPv4NodeInfo", 26, func(b []byte) ([]byte, error) {
			var x krpc.CompactIPv4NodeInfo
			if err := x.UnmarshalBinary(b); err != nil {
				return nil, err
			}
			return x.MarshalBinary()
		}},
		{"CompactIPv6NodeInfo", 38, func(b []byte) ([]byte, error) {
			var x krpc.CompactIPv6NodeInfo
			if err := x.UnmarshalBinary(b); err != nil {
				return nil, err
			}
			return x.MarshalBinary()
		}},
		{"CompactInfohashes", 20, func(b []byte) ([]byte, error) {
			var x krpc.CompactInfohashes
			if err := x.UnmarshalBinary(b); err != nil {
				return nil, err
			}
			return x.MarshalBinary()
		}},
	}
}

func fill(n, pat int) []byte {
	b := make([]byte, n)
	for i := range b {
		switch pat {
		case 0:
			b[i] = 0
		case 1:
			b[i] = 0xff
		default:
			b[i] = byte(i*31 + 7)
		}
	}
	return b
}

func c15Compact(dec compactDec, n, pat int) (viol string) {
	b := fill(n, pat)
	if p := guard(func() {
		re, err := dec.dec(b)
		if n%dec.size != 0 {
			if err == nil {
				viol = fmt.Sprintf("compact-length: %s accepted %d bytes (entry size %d)", dec.name, n, dec.size)
			}
			return
		}
		if err != nil {
			viol = fmt.Sprintf("compact-length: %s rejected %d bytes (entry size %d): %v", dec.name, n, dec.size, err)
			return
		}
		if !bytes.Equal(re, b) {
			viol = fmt.Sprintf("compact-reencode: %s %x re-encodes to %x", dec.name, b, re)
		}
		// the bencoded form must behave the same
	}); p != "" {
		viol = fmt.Sprintf("panic: %s.UnmarshalBinary on %d bytes: %s", dec.name, n, p)
	}
	return
}

// every other exported decoder of the package: must not panic on any length; where the property
// fixes acceptance, it is checked.
func c15Other(name string, n, pat int) (viol string) {
	b := fill(n, pat)
	benc := []byte(strconv.Itoa(n) + ":" + string(b))
	if p := guard(func() {
		switch name {
		case "NodeAddr.UnmarshalBinary":
			var x krpc.NodeAddr
			err := x.UnmarshalBinary(b)
			if err == nil {
				re, _ := x.MarshalBinary()
				if !bytes.Equal(re, b) {
					viol = fmt.Sprintf("nodeaddr-reencode: %x -> %x", b, re)
				}
			}
		case "NodeAddr.UnmarshalBencode":
			var x krpc.NodeAddr
			x.UnmarshalBencode(benc)
			x.UnmarshalBencode(b)
		case "NodeInfo.UnmarshalBinary":
			var x krpc.NodeInfo
			err := x.UnmarshalBinary(b)
			if err == nil {
				re, _ := x.MarshalBinary()
				if !bytes.Equal(re, b) {
					viol = fmt.Sprintf("nodeinfo-reencode: %x -> %x", b, re)
				}
			}
		case "ID.UnmarshalBencode":
			var x krpc.ID
			// The property fixes no acceptance rule for IDs (today strings longer than 20 bytes
			// are accepted and truncated); only a 20-byte string must round-trip, shorter must fail.
			err := x.UnmarshalBencode(benc)
			if n < 20 && err == nil {
				viol = fmt.Sprintf("id-length: ID.UnmarshalBencode accepted a %d-byte string", n)
			}
			if n == 20 {
				re, _ := x.MarshalBencode()
				if err != nil || !bytes.Equal(re, benc) {
					viol = fmt.Sprintf("id-reencode: %q -> %q (%v)", benc, re, err)
				}
			}
			x.UnmarshalBencode(b)
		case "ID.UnmarshalText":
			var x krpc.ID
			x.UnmarshalText(b)
			x.UnmarshalText([]byte(hex.EncodeToString(b)))
		case "Error.UnmarshalBencode":
			var x krpc.Error
			x.UnmarshalBencode(benc)
			x.UnmarshalBencode(b)
			x.UnmarshalBencode([]byte("l" + string(benc) + "e"))
			x.UnmarshalBencode([]byte("li" + strconv.Itoa(n) + "e" + string(benc) + "e"))
			x.UnmarshalBencode([]byte("li" + strconv.Itoa(n) + "ee"))
			x.UnmarshalBencode([]byte("le"))
			if n == 0 && pat == 0 {
				// every list of 0..3 elements over {int, string, list, dict}, bare and inside a message
				elems := []string{"i201e", "3:abc", "l1:xe", "d1:ki1ee"}
				var shapes []string
				var gen func(prefix string, depth int)
				gen = func(prefix string, depth int) {
					shapes = append(shapes, "l"+prefix+"e")
					if depth == 3 {
						return
					}
					for _, e := range elems {
						gen(prefix+e, depth+1)
					}
				}
				gen("", 0)
				shapes = append(shapes, elems...)
				for _, sh := range shapes {
					var e krpc.Error
					e.UnmarshalBencode([]byte(sh))
					var m krpc.Msg
					bencode.Unmarshal([]byte("d1:e"+sh+"1:t2:aa1:y1:ee"), &m)
				}
			}
		case "Compact.UnmarshalBencode":
			var a krpc.CompactIPv4NodeAddrs
			var c krpc.CompactIPv6NodeAddrs
			var d krpc.CompactIPv4NodeInfo
			var e krpc.CompactIPv6NodeInfo
			var f krpc.CompactInfohashes
			check := func(nm string, size int, err error, re func() ([]byte, error)) {
				if viol != "" {
					return
				}
				if (err == nil) != (n%size == 0) {
					viol = fmt.Sprintf("compact-length: %s.UnmarshalBencode of %d bytes (entry size %d): err=%v", nm, n, size, err)
					return
				}
				if err == nil {
					r, e2 := re()
					if e2 != nil || !bytes.Equal(r, benc) {
						viol = fmt.Sprintf("compact-reencode: %s bencoded %d bytes -> %q (%v)", nm, n, r, e2)
					}
				}
			}
			check("CompactIPv4NodeAddrs", 6, a.UnmarshalBencode(benc), func() ([]byte, error) { return a.MarshalBencode() })
			check("CompactIPv6NodeAddrs", 18, c.UnmarshalBencode(benc), func() ([]byte, error) { return c.MarshalBencode() })
			check("CompactIPv4NodeInfo", 26, d.UnmarshalBencode(benc), func() ([]byte, error) { return d.MarshalBencode() })
			check("CompactIPv6NodeInfo", 38, e.UnmarshalBencode(benc), func() ([]byte, error) { return e.MarshalBencode() })
			check("CompactInfohashes", 20, f.UnmarshalBencode(benc), func() ([]byte, error) { return f.MarshalBencode() })
		}
	}); p != "" {
		viol = fmt.Sprintf("panic: %s on %d bytes (pattern %d): %s", name, n, pat, p)
	}
	return
}

// ID.UnmarshalText is deliberately absent: the property quantifies over UnmarshalBinary and
// UnmarshalBencode (it panics today on more than 40 hex digits - noted in DESIGN.md, not reported).
var c15Others = []string{"NodeAddr.UnmarshalBinary", "NodeAddr.UnmarshalBencode", "NodeInfo.UnmarshalBinary", "ID.UnmarshalBencode", "Error.UnmarshalBencode", "Compact.UnmarshalBencode"}

func c15NodesFile(k int) (viol string) {
	var ns []krpc.NodeInfo
	for i := 0; i < k; i++ {
		if i%2 == 0 {
			ns = append(ns, n4(byte(i+1), false))
		} else {
			ns = append(ns, n6(byte(i+1)))
		}
	}
	dir, err := os.MkdirTemp("", "verif-c15-")
	if err != nil {
		return "HARNESS: " + err.Error()
	}
	defer os.RemoveAll(dir)
	fn := filepath.Join(dir, "nodes")
	if p := guard(func() {
		if err := dht.WriteNodesToFile(ns, fn); err != nil {
			viol = "nodes-file-write: " + err.Error()
			return
		}
		got, err := dht.ReadNodesFromFile(fn)
		if err != nil {
			viol = "nodes-file-read: " + err.Error()
			return
		}
		if len(got) != len(ns) {
			viol = fmt.Sprintf("nodes-file-roundtrip: wrote %d read %d", len(ns), len(got))
			return
		}
		for i := range ns {
			if got[i].ID != ns[i].ID || !got[i].Addr.IP.Equal(ns[i].Addr.IP) || got[i].Addr.Port != ns[i].Addr.Port {
				viol = fmt.Sprintf("nodes-file-roundtrip: entry %d %v != %v", i, got[i], ns[i])
			}
		}
	}); p != "" {
		viol = "panic: nodes file: " + p
	}
	return
}

// ---- replay -------------------------------------------------------------------------------------

// race-directed stage (schedule explorer), present only in overlay builds (build tag verife2)
var c15SyncReplay func(t *testing.T, c explore.Case) explore.Result

func init() {
	runners["C15"] = func(t *testing.T, c explore.Case) (r explore.Result) {
		arg := func(i int) int { v, _ := strconv.Atoi(c.H[i]); return v }
		if strings.HasPrefix(c.Unit, "sync;") {
			if c15SyncReplay == nil {
				return explore.Result{Viol: "HARNESS: race-directed stage not built"}
			}
			return c15SyncReplay(t, c)
		}
		switch c.Unit {
		case "msg":
			genMsgs(func(desc string, m krpc.Msg) {
				if desc == c.H[0] && r.Viol == "" {
					r.Viol = c15RoundTrip(m)
				}
			})
		case "bytes":
			b, _ := hex.DecodeString(c.H[0])
			r.Viol, _ = c15Fixpoint(b)
		case "compact":
			for _, d := range compactDecs() {
				if d.name == c.H[0] {
					r.Viol = c15Compact(d, arg(1), arg(2))
				}
			}
		case "other":
			r.Viol = c15Other(c.H[0], arg(1), arg(2))
		case "nodesfile":
			r.Viol = c15NodesFile(arg(0))
		case "corpus":
			c15CorpusPanic = ""
			c15Corpus()
			r.Viol = c15CorpusPanic
		}
		return
	}
}

func TestC15(t *testing.T) {
	w := explore.NewWorker("C15")
	defer w.Finish()
	w.SetRule("(a) Msg values from a bounded grammar (8 query methods, response, 5 error shapes; every alternative of every MsgArgs/Return/top-level field, all pairs of alternatives of two fields, full presence product over pointer/omitempty fields) through encode->decode->deep-equal (IPs by value, nil==empty) and re-encode; (b) every prefix truncation and every single-byte substitution by one of 10 structural bytes of a 42-datagram corpus, every one-byte deletion and structural-byte insertion (thorough: every byte value at every position and the complete two-substitution neighbourhood of the datagrams up to 160 bytes), plus the encodings of (a): if it decodes, re-encoding must succeed and be a fixpoint; (c) every compact list decoder (binary and bencoded form) on every length 0..3*size+1 x 3 fill patterns: accepted iff length is a multiple of the entry size, re-encodes identically; every other exported Unmarshal* of krpc on lengths 0..80; nodes-file round trip. Any panic is a violation. distinct_nontrivial = distinct inputs that passed the decode gate (b) or were evaluated (a, c)")
	idx := 0
	// (a) grammar, sharded by ordinal
	{
		const parts = 32
		for part := 0; part < parts; part++ {
			u := idx
			idx++
			if !w.Mine(u) {
				continue
			}
			w.BeginUnit(u, fmt.Sprintf("grammar-%d", part))
			var n, fx int64
			k := 0
			genMsgs(func(desc string, m krpc.Msg) {
				k++
				if k%parts != part {
					return
				}
				c := explore.Case{Prop: "C15", Unit: "msg", H: []string{desc}}
				if v := c15RoundTrip(m); v != "" {
					w.Violate(c, v)
				}
				n++
				if n == 3 {
					w.Sample(c)
				}
				guard(func() { // a panic here was already reported by c15RoundTrip above
					if b, err := bencode.Marshal(m); err == nil {
						if v, _ := c15Fixpoint(b); v != "" {
							w.Violate(explore.Case{Prop: "C15", Unit: "bytes", H: []string{hex.EncodeToString(b)}}, v)
						}
						fx++
					}
				})
			})
			w.Count(n+fx, n)
			w.Outcome("grammar", int(n))
		}
	}
	// (b) byte neighbourhood, sharded by corpus element
	corpus := c15Corpus()
	if c15CorpusPanic != "" && w.ShardI == 0 {
		w.Violate(explore.Case{Prop: "C15", Unit: "corpus", H: []string{"build"}}, c15CorpusPanic)
	}
	w.Bound("corpus", len(corpus))
	for ci, d := range corpus {
		u := idx
		idx++
		if !w.Mine(u) {
			continue
		}
		w.BeginUnit(u, fmt.Sprintf("bytes-%d", ci))
		var n, nt int64
		try := func(b []byte) {
			v, nontriv := c15Fixpoint(b)
			n++
			if nontriv {
				nt++
			}
			if v != "" {
				w.Violate(explore.Case{Prop: "C15", Unit: "bytes", H: []string{hex.EncodeToString(b)}}, v)
			}
		}
		for cut := 0; cut <= len(d); cut++ {
			try(d[:cut])
		}
		for pos := 0; pos < len(d); pos++ {
			for _, s := range c15Subst {
				if d[pos] == s {
					continue
				}
				m := append([]byte(nil), d...)
				m[pos] = s
				try(m)
			}
		}
		// one-byte deletions and insertions of a structural byte
		for pos := 0; pos < len(d); pos++ {
			try(append(append([]byte(nil), d[:pos]...), d[pos+1:]...))
		}
		for pos := 0; pos <= len(d); pos++ {
			for _, s := range c15Subst {
				m := append(append(append([]byte(nil), d[:pos]...), s), d[pos:]...)
				try(m)
			}
		}
		if w.Thorough() {
			// every byte value at every position
			for pos := 0; pos < len(d); pos++ {
				for v := 0; v < 256; v++ {
					if d[pos] == byte(v) {
						continue
					}
					m := append([]byte(nil), d...)
					m[pos] = byte(v)
					try(m)
				}
			}
			// the two-substitution neighbourhood (structural bytes) of datagrams up to 160 bytes
			if len(d) <= 160 {
				m := make([]byte, len(d))
				for p1 := 0; p1 < len(d); p1++ {
					for _, s1 := range c15Subst {
						if d[p1] == s1 {
							continue
						}
						for p2 := p1 + 1; p2 < len(d); p2++ {
							for _, s2 := range c15Subst {
								if d[p2] == s2 {
									continue
								}
								copy(m, d)
								m[p1], m[p2] = s1, s2
								try(m)
							}
						}
					}
					if w.OutOfTime() {
						w.Cap(fmt.Sprintf("time budget hit inside the two-edit neighbourhood of corpus datagram %d", ci))
						break
					}
				}
			}
		}
		if ci == 0 {
			w.Sample(explore.Case{Prop: "C15", Unit: "bytes", H: []string{hex.EncodeToString(d)}})
		}
		w.Count(n, nt)
		w.Outcome("neighbourhood-decoded", int(nt))
		w.Outcome("neighbourhood-rejected", int(n-nt))
	}
	// (c) compact decoders and the others
	if u := idx; w.Mine(u) {
		w.BeginUnit(u, "compact")
		var n int64
		for _, d := range compactDecs() {
			for ln := 0; ln <= 3*d.size+1; ln++ {
				for pat := 0; pat < 3; pat++ {
					if v := c15Compact(d, ln, pat); v != "" {
						w.Violate(explore.Case{Prop: "C15", Unit: "compact", H: []string{d.name, strconv.Itoa(ln), strconv.Itoa(pat)}}, v)
					}
					n++
				}
			}
		}
		for _, o := range c15Others {
			for ln := 0; ln <= 120; ln++ {
				for pat := 0; pat < 3; pat++ {
					if v := c15Other(o, ln, pat); v != "" {
						w.Violate(explore.Case{Prop: "C15", Unit: "other", H: []string{o, strconv.Itoa(ln), strconv.Itoa(pat)}}, v)
					}
					n++
				}
			}
		}
		for k := 0; k <= 3; k++ {
			if v := c15NodesFile(k); v != "" {
				w.Violate(explore.Case{Prop: "C15", Unit: "nodesfile", H: []string{strconv.Itoa(k)}}, v)
			}
			n++
		}
		w.Count(n, n)
		w.Outcome("compact", int(n))
	}
	idx++
}
