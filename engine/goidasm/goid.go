package goidasm

import (
	"runtime"
	"strconv"
	"sync"
	"unsafe"
)

// Fast goroutine identity. runtime.Stack costs a full traceback (about a third of the explorer's
// time when used at every Point), so the offset of runtime.g.goid is discovered once by comparing
// the parsed ID with the words of the g structure in several goroutines; if no unique offset is
// found the slow path stays in use.

func getg() unsafe.Pointer

var (
	goidOnce sync.Once
	goidOff  = -1
)

func slowGoid() uint64 {
	var buf [64]byte
	n := runtime.Stack(buf[:], false)
	s := buf[10:n]
	i := 0
	for i < len(s) && s[i] != ' ' {
		i++
	}
	id, _ := strconv.ParseUint(string(s[:i]), 10, 64)
	return id
}

func candidates() map[int]bool {
	g := getg()
	id := slowGoid()
	out := map[int]bool{}
	for off := 0; off < 640; off += 8 {
		if *(*uint64)(unsafe.Add(g, off)) == id {
			out[off] = true
		}
	}
	return out
}

func findGoidOff() {
	c := candidates()
	for i := 0; i < 4 && len(c) > 1; i++ {
		ch := make(chan map[int]bool)
		go func() { ch <- candidates() }()
		c2 := <-ch
		for k := range c {
			if !c2[k] {
				delete(c, k)
			}
		}
	}
	if len(c) == 1 {
		for k := range c {
			goidOff = k
		}
	}
}

func ID() uint64 {
	goidOnce.Do(findGoidOff)
	if goidOff < 0 {
		return slowGoid()
	}
	return *(*uint64)(unsafe.Add(getg(), goidOff))
}

// Fast reports whether the fast path is in use (evidence note).
func Fast() bool { goidOnce.Do(findGoidOff); return goidOff >= 0 }
