package props

import (
	"fmt"
	"sort"
	"strings"
	"testing"
	"testing/synctest"
	"time"

	"github.com/anacrolix/dht/v2"

	"verif/explore"
	"verif/sim"
)

// Maintenance-driven histories for C05 and C06: the real Server.TableMaintainer runs in the bubble
// (bootstrap when needed, questionable-node pings, bucket refresh lookups) against simulated peers
// that are individually alive or dead; letters toggle peers, let them query the node, and advance
// the clock. The table is inspected every 20 virtual seconds.
//
// Unit "maint;start=<tblStarts name>", letters:
//
//	dead:<p> / alive:<p>   the peer stops / resumes answering
//	Q:<p>                  the peer sends a ping query
//	T1 / T16               1 / 16 minutes pass (in 10 s chunks, the responder running in between)

var maintPeers = []string{"e1", "e2", "n1", "c1"}

func maintAlphabet() []string {
	a := []string{"T1", "T16"}
	for _, p := range maintPeers {
		a = append(a, "dead:"+p, "Q:"+p)
	}
	return append(a, "alive:e1", "Q:n2", "dead:all")
}

func runMaint(t *testing.T, c explore.Case, which string) (res explore.Result) {
	startName := strings.TrimPrefix(c.Unit, "maint;start=")
	start, ok := tblStarts[startName]
	if !ok {
		res.Viol = "HARNESS: bad unit " + c.Unit
		return
	}
	p := Bubble(t, func() {
		y := newTblSys(tblCfgs["plain"])
		defer func() {
			y.Close()
			time.Sleep(time.Minute)
			synctest.Wait()
		}()
		for _, l := range start {
			if _, err := y.apply(l); err != nil {
				res.Viol = "HARNESS: " + err.Error()
				return
			}
		}
		y.Take()
		y.useImplFailed = true
		dead := map[string]bool{}
		byAddr := map[string]peer{}
		var names []string
		for n, pr := range y.peers {
			byAddr[pr.Addr.String()] = pr
			names = append(names, n)
		}
		sort.Strings(names)
		// who legitimately may enter: answered one of our queries, queried us, or was added
		answered := map[string]bool{} // addr|idhex
		queried := map[string]bool{}
		keyOf := func(pr peer) string { return pr.Addr.String() + "|" + fmt.Sprintf("%x", pr.ID) }
		// hearsay: every find_node reply lists these two (they are then contacted by the lookup)
		hearsay := []peer{y.peers["n2"], y.peers["z9"]}
		respond := func() {
			for i := 0; i < 200; i++ {
				synctest.Wait()
				ws := y.Take()
				n := 0
				for _, o := range DecodeWrites(ws) {
					if o.Y() != "q" {
						continue
					}
					pr, known := byAddr[o.To.String()]
					if !known || dead[pr.Name] {
						continue
					}
					r := sim.M{"id": sim.IDStr(pr.ID)}
					if o.Q() == "find_node" {
						var nodes string
						for _, h := range hearsay {
							nodes += sim.CompactNode(h.ID, h.Addr.IP.To4(), h.Addr.Port)
						}
						r["nodes"] = nodes
					}
					answered[keyOf(pr)] = true
					y.Conn.Inject(pr.Addr, sim.Reply(o.T(), r))
					n++
				}
				if n == 0 {
					return
				}
			}
		}
		go y.S.TableMaintainer()
		respond()
		before := y.snap()
		check := func(where string) bool {
			after := y.snap()
			defer func() { before = after }()
			if which == "C05" {
				if v := y.c05Invariant(after); v != "" {
					res.Viol = v + " [" + where + "]"
					return false
				}
				return true
			}
			// C06: entries that vanished / appeared during this chunk
			for k, n := range before.ByKey {
				if _, still := after.ByKey[k]; still {
					continue
				}
				name := y.byKey[k]
				if y.refGood(before.Now, n) && !dead[name] {
					res.Viol = fmt.Sprintf("evicted-good: %s (%s) was good, its peer is alive, and it was removed [%s]", name, k, where)
					return false
				}
				if !n.LastGotResponse.IsZero() && !n.FailedPing && !dead[name] {
					res.Viol = fmt.Sprintf("evicted-not-bad: %s (%s) had answered before and never failed a ping, yet it was removed [%s]", name, k, where)
					return false
				}
			}
			for k := range after.ByKey {
				if _, was := before.ByKey[k]; was {
					continue
				}
				if !answered[k] && !queried[k] {
					res.Viol = fmt.Sprintf("admitted-unverified: %s (%s) entered the table although it neither answered one of our queries nor queried us [%s]", y.byKey[k], k, where)
					return false
				}
			}
			return true
		}
		pass := func(d time.Duration, where string) bool {
			for el := time.Duration(0); el < d; el += 20 * time.Second {
				time.Sleep(20 * time.Second)
				respond()
				if !check(where) {
					return false
				}
			}
			return true
		}
		for _, l := range c.H {
			res.Steps++
			f := strings.Split(l, ":")
			switch f[0] {
			case "T1":
				if !pass(time.Minute, l) {
					return
				}
			case "T16":
				if !pass(16*time.Minute, l) {
					return
				}
			case "dead":
				if f[1] == "all" {
					for _, n := range names {
						dead[n] = true
					}
				} else {
					dead[f[1]] = true
				}
			case "alive":
				dead[f[1]] = false
			case "Q":
				pr := y.peers[f[1]]
				queried[keyOf(pr)] = true
				y.Conn.Inject(pr.Addr, sim.Query("mq", "ping", sim.M{"id": sim.IDStr(pr.ID)}))
				respond()
				if !check(l) {
					return
				}
			}
		}
		after := y.snap()
		// Which peer the maintainer contacts first is the runtime's choice (map order), so exact ages
		// differ between runs of one history: no state dedup here, and the determinism self-check
		// compares only the coarse outcome.
		res.Key = ""
		good := 0
		for _, n := range after.T.Nodes {
			if y.refGood(after.Now, n) {
				good++
			}
		}
		res.Outcome = fmt.Sprintf("maint nodes=%d good=%d", len(after.T.Nodes), good)
		res.DetKey = res.Outcome
	})
	if p != "" && res.Viol == "" {
		res.Viol = "panic: " + firstLineOf(p)
	}
	return
}

func maintExplore(t *testing.T, w *explore.Worker, prop string, idx *int) {
	depth := 2
	if w.Thorough() {
		depth = 3
	}
	w.Bound("maint_depth", depth)
	alpha := maintAlphabet()
	var starts []string
	for s := range tblStarts {
		starts = append(starts, s)
	}
	sort.Strings(starts)
	for _, st := range starts {
		for _, first := range alpha {
			i := *idx
			*idx++
			if !w.Mine(i) {
				continue
			}
			if w.OutOfTime() {
				w.Cap("time budget hit before a maintenance unit")
				continue
			}
			unit := "maint;start=" + st
			w.BeginUnit(i, unit+";first="+first)
			b := &explore.BFS{W: w, Unit: unit, Alphabet: alpha, Prefix: []string{first}, MaxDepth: depth - 1, DetCheck: 1,
				Run: func(c explore.Case) explore.Result { return runMaint(t, c, prop) }}
			b.Explore()
			w.Flush(false)
		}
	}
}

var _ = dht.NewAddr
