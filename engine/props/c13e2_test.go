//go:build verife2

package props

import (
	"fmt"
	"strings"
	"testing"
	"time"

	"github.com/anacrolix/dht/v2/bep44"
	"github.com/anacrolix/dht/v2/verifsched"

	"verif/explore"
)

// C13, concurrent part: all interleavings (at Store.Get/Put/Del and mutex granularity) of 2-3
// concurrent Wrapper.Put / Wrapper.Get calls on one target, checked for monotone stored seq and for
// linearizability against the sequential reference model (brute force over the few orders).

type c13Op struct {
	Kind     string // "put" | "get"
	Seq, Cas int64
	V        string
}

type c13Scn struct {
	Name    string
	Init    *c13Op // stored before the threads start
	Expired bool   // let the initial item pass its expiry first
	Ops     []c13Op
}

func c13Scenarios() []c13Scn {
	return []c13Scn{
		{Name: "two-puts", Init: &c13Op{"put", 1, 0, "a"}, Ops: []c13Op{{"put", 2, 0, "x"}, {"put", 3, 0, "y"}}},
		{Name: "three-puts", Init: &c13Op{"put", 1, 0, "a"}, Ops: []c13Op{{"put", 2, 0, "x"}, {"put", 3, 0, "y"}, {"put", 2, 0, "z"}}},
		{Name: "cas-race", Init: &c13Op{"put", 1, 0, "a"}, Ops: []c13Op{{"put", 2, 1, "x"}, {"put", 3, 1, "y"}}},
		{Name: "same-seq", Init: &c13Op{"put", 1, 0, "a"}, Ops: []c13Op{{"put", 2, 0, "x"}, {"put", 2, 0, "y"}}},
		{Name: "empty-start", Ops: []c13Op{{"put", 2, 0, "x"}, {"put", 1, 0, "y"}}},
		{Name: "put-get", Init: &c13Op{"put", 1, 0, "a"}, Ops: []c13Op{{"put", 2, 0, "x"}, {Kind: "get"}}},
		{Name: "expired-get-put", Init: &c13Op{"put", 1, 0, "a"}, Expired: true, Ops: []c13Op{{"put", 2, 0, "x"}, {Kind: "get"}}},
		{Name: "expired-two-gets-put", Init: &c13Op{"put", 5, 0, "a"}, Expired: true, Ops: []c13Op{{"put", 2, 0, "x"}, {Kind: "get"}, {Kind: "get"}}},
	}
}

type c13Call struct {
	Op       c13Op
	Inv, Ret int // scheduling step numbers (Ret = -1: never returned)
	Outcome  string
	GotSeq   int64
	GotV     string
}

func runC13Conc(t *testing.T, scn *c13Scn, prefix []int) (x explore.Exec) {
	var c *e2Ctl
	var viol string
	var outcome []string
	p := Bubble(t, func() {
		store := newC13Store()
		w := bep44.NewWrapper(store, c13Exp)
		target := mutableTarget(pubOf(bepKey1), nil)
		ref := &c13Ref{}
		if scn.Init != nil {
			if err := w.Put(c13Item(scn.Init.Seq, scn.Init.Cas, scn.Init.V)); err != nil {
				viol = "HARNESS: initial put failed: " + err.Error()
				return
			}
			ref.applyPut(time.Now(), "ok", scn.Init.Seq, scn.Init.V)
		}
		if scn.Expired {
			time.Sleep(c13Exp + time.Nanosecond)
		}
		c = newE2(prefix, 500)
		defer c.done()
		store.onOp = func(op string) { verifsched.Point(op) }
		calls := make([]*c13Call, len(scn.Ops))
		for i, op := range scn.Ops {
			i, op := i, op
			calls[i] = &c13Call{Op: op, Inv: -1, Ret: -1}
			go func() {
				verifsched.Tag(fmt.Sprintf("t%d:%s", i, op.Kind))
				verifsched.Point("api")
				calls[i].Inv = c.steps
				if op.Kind == "put" {
					calls[i].Outcome = errCode(w.Put(c13Item(op.Seq, op.Cas, op.V)))
				} else {
					it, err := w.Get(target)
					calls[i].Outcome = errCode(err)
					if err == nil {
						calls[i].GotSeq, calls[i].GotV = it.Seq, fmt.Sprint(it.V)
					}
				}
				calls[i].Ret = c.steps
			}()
		}
		if !c.loop(nil) {
			if c.err == "" {
				viol = "horizon: the calls do not finish"
			}
			return
		}
		if _, bl := c.S.Snapshot(); len(bl) > 0 {
			viol = "deadlock: calls blocked forever on a mutex"
			return
		}
		store.onOp = nil
		verifsched.Install(nil)
		now := time.Now()
		// final state as later gets see it
		fin, ferr := w.Get(target)
		finS := "absent"
		if ferr == nil {
			finS = fmt.Sprintf("seq=%d v=%v", fin.Seq, fin.V)
		}
		for _, cl := range calls {
			outcome = append(outcome, fmt.Sprintf("%s=%s", cl.Op.Kind, cl.Outcome))
		}
		outcome = append(outcome, "final:"+finS)
		if store.viol != "" {
			viol = store.viol + fmt.Sprintf(" (Store.Put sequence %v)", store.putLog)
			return
		}
		// linearizability: some order consistent with real time explains every outcome and the final state
		n := len(calls)
		perm := make([]int, 0, n)
		used := make([]bool, n)
		var try func(r c13Ref) bool
		try = func(r c13Ref) bool {
			if len(perm) == n {
				served, s, v := r.get(now)
				want := "absent"
				if served {
					want = fmt.Sprintf("seq=%d v=%v", s, v)
				}
				return want == finS
			}
			for i := 0; i < n; i++ {
				if used[i] {
					continue
				}
				// real-time order: i may come next only if no unused call returned before i was invoked
				okRT := true
				for j := 0; j < n; j++ {
					if j != i && !used[j] && calls[j].Ret >= 0 && calls[j].Ret < calls[i].Inv {
						okRT = false
					}
				}
				if !okRT {
					continue
				}
				cl := calls[i]
				r2 := r
				good := false
				if cl.Op.Kind == "put" {
					if r2.putAllowed(now, cl.Op.Seq, cl.Op.Cas, cl.Op.V)[cl.Outcome] {
						r2.applyPut(now, cl.Outcome, cl.Op.Seq, cl.Op.V)
						good = true
					}
				} else {
					served, s, v := r2.get(now)
					if served {
						good = cl.Outcome == "ok" && cl.GotSeq == s && cl.GotV == v
					} else {
						good = cl.Outcome == "notfound"
					}
				}
				if !good {
					continue
				}
				used[i] = true
				perm = append(perm, i)
				if try(r2) {
					return true
				}
				perm = perm[:len(perm)-1]
				used[i] = false
			}
			return false
		}
		if !try(*ref) {
			viol = fmt.Sprintf("not-linearizable: outcomes %v on initial state (present=%v seq=%d v=%q expired=%v) are explained by no sequential order of the calls", outcome, ref.present, ref.seq, ref.v, ref.expired(now))
		}
	})
	if c != nil {
		x.Points = c.points
		x.Trace = explore.TraceOf(c.points)
		x.Err = c.err
	}
	if strings.HasPrefix(viol, "HARNESS") {
		x.Err = viol
		viol = ""
	}
	if p != "" && viol == "" && x.Err == "" {
		viol = "panic: " + firstLineOf(p)
	}
	x.Res.Steps = len(x.Points)
	x.Res.Outcome = strings.Join(outcome, " ")
	if viol != "" {
		x.Res.Viol = viol + " [schedule: " + c13Sched(x.Points) + "]"
	}
	return
}

func c13Sched(pts []explore.SchedPoint) string {
	var s []string
	for i, p := range pts {
		if i >= 80 {
			s = append(s, "...")
			break
		}
		n := p.Alts[p.Chosen].Name
		// "<thread>@<kind>(<site>)": keep thread and kind, drop the site and package qualifiers
		if at := strings.LastIndex(n, "@"); at > 0 {
			kind := n[at:]
			if k := strings.Index(kind, "("); k > 0 {
				kind = kind[:k]
			}
			n = n[:at] + kind
		}
		n = strings.ReplaceAll(n, "v2.(*Server).", "Server.")
		n = strings.ReplaceAll(n, "traversal.(*Operation).", "op.")
		s = append(s, n)
	}
	return strings.Join(s, " ")
}

func c13Concurrent(t *testing.T, w *explore.Worker, idx *int) {
	for _, scn := range c13Scenarios() {
		scn := scn
		i := *idx
		*idx++
		if !w.Mine(i) {
			continue
		}
		unit := "mode=conc;scn=" + scn.Name
		w.BeginUnit(i, unit)
		d := &explore.DFS{W: w, Unit: unit, Preempt: -1, Observe: 0, DetCheck: 3, MaxViol: 5,
			Run: func(prefix []int) explore.Exec { return runC13Conc(t, &scn, prefix) }}
		d.Explore()
		w.AddStates(d.Executions)
		w.Note(fmt.Sprintf("%s: %d interleavings (unbounded, unpruned), max %d scheduling points", unit, d.Executions, d.MaxPoints))
		w.Flush(false)
	}
}

func c13ReplayConc(t *testing.T, c explore.Case) explore.Result {
	name := c.Unit[strings.Index(c.Unit, "scn=")+4:]
	for _, scn := range c13Scenarios() {
		if scn.Name == name {
			ch, _ := explore.HToChoices(c.H)
			x := runC13Conc(t, &scn, ch)
			if x.Err != "" {
				return explore.Result{Viol: "HARNESS: " + x.Err}
			}
			return x.Res
		}
	}
	return explore.Result{Viol: "HARNESS: unknown scenario " + name}
}

func init() {
	runners["C13"] = func(t *testing.T, c explore.Case) explore.Result {
		if strings.HasPrefix(c.Unit, "mode=conc") {
			return c13ReplayConc(t, c)
		}
		return runC13(t, c)
	}
}

func TestC13(t *testing.T) {
	w := explore.NewWorker("C13")
	defer w.Finish()
	w.SetRule("sequential: every sequence of {put(seq in -1..3,MaxInt64; cas in 0,1,2,9; value a|b), get (over the wire also naming seq 0/1/2/MaxInt64), clock steps to just before / just past the expiry} on one mutable target, on the real bep44.Wrapper directly and on the real Server over the wire (token fetched before each put), compared step by step with a reference model (302 for lower seq or same seq with another value, 301 unless cas equals the stored seq, accepted puts are what gets return, nothing served after expiry, v sent to a get naming a seq only if the stored seq is newer; stored seq monotone at every Store.Put); concurrent: all interleavings at Store.Get/Put/Del and mutex granularity of 2-3 concurrent Wrapper.Put/Get calls under the scheduler, each checked for monotone stored seq and linearizability (brute force) against the same model")
	idx := 0
	c13Concurrent(t, w, &idx)
	c13Sequential(t, w, &idx)
	w.AddStates(len(c13States))
}
