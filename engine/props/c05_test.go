package props

import (
	"fmt"
	"sort"
	"strings"
	"testing"

	"verif/explore"
)

func init() {
	runners["C05"] = func(t *testing.T, c explore.Case) explore.Result {
		if strings.HasPrefix(c.Unit, "lin;") {
			if linReplays["C05"] == nil {
				return explore.Result{Viol: "HARNESS: serializability tier not built"}
			}
			return linReplays["C05"](t, c)
		}
		if strings.HasPrefix(c.Unit, "maint;") {
			return runMaint(t, c, "C05")
		}
		return runTable(t, c, "C05")
	}
	runners["C06"] = func(t *testing.T, c explore.Case) explore.Result {
		if strings.HasPrefix(c.Unit, "lin;") {
			if linReplays["C06"] == nil {
				return explore.Result{Viol: "HARNESS: serializability tier not built"}
			}
			return linReplays["C06"](t, c)
		}
		if strings.HasPrefix(c.Unit, "maint;") {
			return runMaint(t, c, "C06")
		}
		return runTable(t, c, "C06")
	}
}

// tableExplore drives the routing-table BFS for C05 or C06: units are
// phase x configuration x start state x first letter; each unit is a BFS with canonical-key dedup.
// Phases: the full alphabet to a smaller depth and a core alphabet (the letters that change the
// table) to a larger depth.
func tableExplore(t *testing.T, prop string) {
	w := explore.NewWorker(prop)
	defer w.Finish()
	cfgs := []string{"plain", "sec"}
	if prop == "C06" {
		cfgs = []string{"plain", "sec", "block", "secblk"}
	}
	type phase struct {
		name  string
		core  bool
		depth int
	}
	phases := []phase{{"full", false, 2}, {"core", true, 3}}
	if w.Thorough() {
		phases = []phase{{"full", false, 3}, {"core", true, 5}}
	}
	w.SetRule("BFS over event histories (inbound ping queries, own pings answered/timed out/answered under another ID, AddNode, questionable-ping failure, hearsay, unsolicited/mismatched/error/read-only replies, blocked sources, 1 and 16 minute clock steps) of the real dht.Server in a synctest bubble, from 5 start states (empty, full bucket of good / never-responded / mixed / aged entries) x configurations; states deduplicated by canonical table key (entry, bucket, age classes in minutes capped at 15, failed flag; the eight interchangeable bucket-0 peers anonymised, letters address them by role); oracles evaluated after every event")
	var starts []string
	for s := range tblStarts {
		starts = append(starts, s)
	}
	sort.Strings(starts)
	idx := 0
	if lt := linTiers[prop]; lt != nil {
		lt(t, w, &idx)
	}
	for _, ph := range phases {
		w.Bound("depth_"+ph.name, ph.depth)
		for _, cn := range cfgs {
			cfg := tblCfgs[cn]
			alpha := tblAlphabet(cfg, ph.core)
			w.Bound("alphabet_"+ph.name+"_"+cn, len(alpha))
			for _, st := range starts {
				for _, first := range alpha {
					i := idx
					idx++
					if !w.Mine(i) {
						continue
					}
					if w.OutOfTime() {
						w.Cap(fmt.Sprintf("time budget hit before unit %d (phase %s)", i, ph.name))
						continue
					}
					unit := fmt.Sprintf("cfg=%s;start=%s", cn, st)
					w.BeginUnit(i, unit+";phase="+ph.name+";first="+first)
					b := &explore.BFS{W: w, Unit: unit, Alphabet: alpha, Prefix: []string{first},
						MaxDepth: ph.depth - 1, DetCheck: 1,
						Run: func(c explore.Case) explore.Result { return runTable(t, c, prop) }}
					b.Explore()
					w.Flush(false)
				}
			}
		}
	}
	// maintenance-driven histories (real TableMaintainer), with what is left of the budget
	maintExplore(t, w, prop, &idx)
}

func TestC05(t *testing.T) { tableExplore(t, "C05") }

func TestC06(t *testing.T) { tableExplore(t, "C06") }
