package props

import (
	"bytes"
	"context"
	"crypto/sha1"
	"fmt"
	"net"
	"sort"
	"strconv"
	"strings"
	"testing"
	"testing/synctest"
	"time"

	"github.com/anacrolix/dht/v2"
	"github.com/anacrolix/dht/v2/bep44"
	"github.com/anacrolix/dht/v2/exts/getput"
	"github.com/anacrolix/dht/v2/int160"
	"github.com/anacrolix/dht/v2/krpc"

	"verif/explore"
	"verif/sim"
)

// C01 — no datagram can crash, wedge or silence the node.
// Oracle: worker process survives (else the driver reports the journalled case), the serve loop
// keeps consuming, a fresh well-formed ping is answered, the public API returns.

// ---- hostile alphabet --------------------------------------------------------------------------

type rawBencode string // pre-encoded value spliced into a dict

func (r rawBencode) MarshalBencode() ([]byte, error) { return []byte(r), nil }

var (
	hostileNames []string
	hostileData  = map[string][]byte{}
)

func addHostile(name string, b []byte) {
	if _, dup := hostileData[name]; dup {
		panic("duplicate hostile letter " + name)
	}
	hostileNames = append(hostileNames, name)
	hostileData[name] = b
}

func fullArgs(method string) sim.M {
	pub := pubOf(bepKey1)
	a := sim.M{"id": sim.IDStr(peerID)}
	switch method {
	case "find_node", "get", "sample_infohashes":
		a["target"] = sim.IDStr(targetT)
	case "get_peers":
		a["info_hash"] = sim.IDStr(ihA)
	case "announce_peer":
		a["info_hash"] = sim.IDStr(ihA)
		a["port"] = 6881
		a["token"] = "TOKEN"
	case "put":
		a["token"] = "TOKEN"
		a["v"] = "hello"
		a["seq"] = 1
		a["k"] = string(pub[:])
		a["sig"] = string(refSign(bepKey1, nil, 1, sim.Enc("hello")))
		a["salt"] = "s"
	}
	return a
}

func cloneM(m sim.M) sim.M {
	o := sim.M{}
	for k, v := range m {
		o[k] = v
	}
	return o
}

func init() {
	long := strings.Repeat("m", 200)
	methods := []string{"ping", "find_node", "get_peers", "announce_peer", "put", "get", "sample_infohashes", "", long}
	mname := func(m string) string {
		if m == long {
			return "LONG"
		}
		return m
	}
	q := func(method string, a interface{}, hasA bool) []byte {
		m := sim.M{"t": "hx", "y": "q", "q": method}
		if hasA {
			m["a"] = a
		}
		return sim.Enc(m)
	}
	retyped := map[string]interface{}{"int": 7, "str": "zz", "list": []interface{}{"x", 1}, "dict": sim.M{"x": 1}}
	for _, m := range methods {
		mn := mname(m)
		addHostile("q/"+mn+"/noa", q(m, nil, false))
		addHostile("q/"+mn+"/a={}", q(m, sim.M{}, true))
		addHostile("q/"+mn+"/a=int", q(m, 5, true))
		addHostile("q/"+mn+"/a=list", q(m, []interface{}{"id"}, true))
		addHostile("q/"+mn+"/a=str", q(m, "id", true))
		full := fullArgs(m)
		addHostile("q/"+mn+"/full", q(m, full, true))
		var keys []string
		for k := range full {
			keys = append(keys, k)
		}
		sort.Strings(keys)
		for _, k := range keys {
			a := cloneM(full)
			delete(a, k)
			addHostile("q/"+mn+"/-"+k, q(m, a, true))
			for _, tn := range []string{"int", "str", "list", "dict"} {
				a := cloneM(full)
				a[k] = retyped[tn]
				addHostile("q/"+mn+"/"+k+"="+tn, q(m, a, true))
			}
		}
	}
	// writes with two fields missing (an immutable put is a put without k, sig, salt - and, by BEP 44,
	// without seq), and the plain immutable shapes
	for _, m := range []string{"announce_peer", "put"} {
		full := fullArgs(m)
		var keys []string
		for k := range full {
			keys = append(keys, k)
		}
		sort.Strings(keys)
		for i, k1 := range keys {
			for _, k2 := range keys[i+1:] {
				a := cloneM(full)
				delete(a, k1)
				delete(a, k2)
				addHostile("q/"+m+"/-"+k1+"-"+k2, q(m, a, true))
			}
		}
	}
	addHostile("q/put/immutable", q("put", sim.M{"id": sim.IDStr(peerID), "token": "TOKEN", "v": "imm", "seq": 0}, true))
	addHostile("q/put/immutable-noseq", q("put", sim.M{"id": sim.IDStr(peerID), "token": "TOKEN", "v": "imm"}, true))
	addHostile("q/put/immutable-nov", q("put", sim.M{"id": sim.IDStr(peerID), "token": "TOKEN"}, true))
	// field-length and value sweeps on the methods that use the field
	for _, f := range []struct {
		field   string
		methods []string
	}{{"id", []string{"ping", "get_peers"}}, {"target", []string{"find_node", "get"}}, {"info_hash", []string{"get_peers", "announce_peer"}}, {"k", []string{"put"}}, {"sig", []string{"put"}}} {
		for _, m := range f.methods {
			for _, n := range []int{0, 19, 21, 33, 65} {
				a := cloneM(fullArgs(m))
				a[f.field] = strings.Repeat("L", n)
				addHostile(fmt.Sprintf("q/%s/len(%s)=%d", m, f.field, n), q(m, a, true))
			}
		}
	}
	for _, m := range []string{"announce_peer", "put"} {
		for _, n := range []int{0, 20, 1000} {
			a := cloneM(fullArgs(m))
			a["token"] = strings.Repeat("k", n)
			addHostile(fmt.Sprintf("q/%s/len(token)=%d", m, n), q(m, a, true))
		}
	}
	for i, p := range []interface{}{-1, 0, 65536, int64(1<<63 - 1), rawBencode("i-0e"), rawBencode("i99999999999999999999999e")} {
		a := cloneM(fullArgs("announce_peer"))
		a["port"] = p
		addHostile(fmt.Sprintf("q/announce_peer/port#%d", i), q("announce_peer", a, true))
		a2 := cloneM(a)
		a2["implied_port"] = 1
		addHostile(fmt.Sprintf("q/announce_peer/port#%d+implied", i), q("announce_peer", a2, true))
	}
	for i, wv := range []interface{}{[]interface{}{}, []interface{}{"n4"}, []interface{}{"n6"}, []interface{}{"n4", "n6"}, []interface{}{"xx"}, 5, []interface{}{1, 2}} {
		for _, m := range []string{"find_node", "get_peers", "get"} {
			a := cloneM(fullArgs(m))
			a["want"] = wv
			addHostile(fmt.Sprintf("q/%s/want#%d", m, i), q(m, a, true))
		}
	}
	nested := strings.Repeat("l", 50) + strings.Repeat("e", 50)
	for i, v := range []interface{}{nil, 7, strings.Repeat("v", 995), strings.Repeat("v", 996), strings.Repeat("v", 997), rawBencode(nested), rawBencode("d1:bi1e1:ai2ee"), sim.M{"a": []interface{}{1, "x"}}} {
		a := cloneM(fullArgs("put"))
		if v == nil {
			delete(a, "v")
		} else {
			a["v"] = v
		}
		addHostile(fmt.Sprintf("q/put/v#%d", i), q("put", a, true))
		delete(a, "k")
		delete(a, "sig")
		delete(a, "salt")
		addHostile(fmt.Sprintf("q/put/immutable-v#%d", i), q("put", a, true))
	}
	for i, s := range []interface{}{nil, -1, int64(1<<63 - 1), rawBencode("i-9223372036854775808e")} {
		a := cloneM(fullArgs("put"))
		if s == nil {
			delete(a, "seq")
		} else {
			a["seq"] = s
		}
		addHostile(fmt.Sprintf("q/put/seq#%d", i), q("put", a, true))
		g := cloneM(fullArgs("get"))
		if s != nil {
			g["seq"] = s
		}
		addHostile(fmt.Sprintf("q/get/seq#%d", i), q("get", g, true))
	}
	for _, n := range []int{0, 64, 65, 300} {
		a := cloneM(fullArgs("put"))
		a["salt"] = strings.Repeat("s", n)
		addHostile(fmt.Sprintf("q/put/len(salt)=%d", n), q("put", a, true))
	}
	// t and y variants
	for _, m := range []string{"ping", "get_peers", "put"} {
		base := sim.M{"y": "q", "q": m, "a": fullArgs(m)}
		for name, tv := range map[string]interface{}{"absent": nil, "empty": "", "t300": strings.Repeat("t", 300), "int": 5, "list": []interface{}{}} {
			x := cloneM(base)
			if tv != nil {
				x["t"] = tv
			}
			addHostile("q/"+m+"/t="+name, sim.Enc(x))
		}
		for name, yv := range map[string]interface{}{"r": "r", "e": "e", "empty": "", "zz": "zz", "absent": nil, "int": 1} {
			x := cloneM(base)
			x["t"] = "hx"
			if yv != nil {
				x["y"] = yv
			} else {
				delete(x, "y")
			}
			addHostile("q/"+m+"/y="+name, sim.Enc(x))
		}
	}
	sort.Strings(hostileNames)
	// unsolicited responses and errors
	id := sim.IDStr(peerID)
	addHostile("r/plain", sim.Reply("zz", sim.M{"id": id}))
	addHostile("r/no-r", sim.Enc(sim.M{"t": "zz", "y": "r"}))
	addHostile("r/r=int", sim.Enc(sim.M{"t": "zz", "y": "r", "r": 1}))
	addHostile("r/nodes25", sim.Reply("zz", sim.M{"id": id, "nodes": strings.Repeat("n", 25)}))
	addHostile("r/values-bad", sim.Reply("zz", sim.M{"id": id, "values": []interface{}{"x", "12345"}}))
	addHostile("e/list", sim.ErrorMsg("zz", 201, "err"))
	addHostile("e/string", sim.Enc(sim.M{"t": "zz", "y": "e", "e": "oops"}))
	addHostile("e/short", sim.Enc(sim.M{"t": "zz", "y": "e", "e": []interface{}{201}}))
	addHostile("e/empty", sim.Enc(sim.M{"t": "zz", "y": "e", "e": []interface{}{}}))
	addHostile("e/nonint", sim.Enc(sim.M{"t": "zz", "y": "e", "e": []interface{}{"a", "b"}}))
	addHostile("e/int-int", sim.Enc(sim.M{"t": "zz", "y": "e", "e": []interface{}{201, 202}}))
	addHostile("e/nested", sim.Enc(sim.M{"t": "zz", "y": "e", "e": []interface{}{[]interface{}{1}, sim.M{}}}))
	addHostile("e/dict", sim.Enc(sim.M{"t": "zz", "y": "e", "e": sim.M{"x": 1}}))
	addHostile("e/int", sim.Enc(sim.M{"t": "zz", "y": "e", "e": 5}))
	addHostile("ip/short", sim.Enc(sim.M{"t": "zz", "y": "r", "r": sim.M{"id": id}, "ip": "x"}))
	addHostile("ip/int", sim.Enc(sim.M{"t": "zz", "y": "r", "r": sim.M{"id": id}, "ip": 4}))
	addHostile("ro/str", sim.Enc(sim.M{"t": "zz", "y": "q", "q": "ping", "a": sim.M{"id": id}, "ro": "x"}))
	// not KRPC at all
	addHostile("raw/empty", []byte{})
	addHostile("raw/1byte", []byte("d"))
	addHostile("raw/de", []byte("de"))
	addHostile("raw/le", []byte("le"))
	addHostile("raw/i1e", []byte("i1e"))
	addHostile("raw/d-unterminated", []byte("d1:t2:aa"))
	addHostile("raw/65535", append([]byte("d1:t65000:"), make([]byte, 65525)...))
	addHostile("raw/65536", append([]byte("d1:t65000:"), make([]byte, 65526)...))
	addHostile("raw/nul-trunc", []byte("d1:ad2:id20:\x00\x00\x00\x00\x00"))
	addHostile("raw/trailing", append(sim.Query("hx", "ping", sim.M{"id": id}), []byte("garbage!")...))
	addHostile("raw/len-overrun", []byte("d1:t99999:aae"))
	addHostile("raw/neg-len", []byte("d1:t-1:aae"))
	addHostile("raw/huge-len", []byte("d1:t99999999999999999999:ae"))
	var many strings.Builder
	many.WriteString("d")
	for i := 0; i < 10000; i++ {
		k := fmt.Sprintf("k%05d", i)
		many.WriteString(fmt.Sprintf("%d:%si1e", len(k), k))
	}
	many.WriteString("e")
	addHostile("raw/10000-keys", []byte(many.String()))
	addHostile("raw/deep-l", []byte("d1:x"+strings.Repeat("l", 30000)+strings.Repeat("e", 30000)+"e"))
	addHostile("raw/deep-d", []byte("d1:x"+strings.Repeat("d1:a", 15000)+"de"+strings.Repeat("e", 15000)+"e"))
	addHostile("raw/deep-in-a", []byte("d1:ad2:id20:"+id+"1:v"+strings.Repeat("l", 25000)+strings.Repeat("e", 25000)+"e1:q3:put1:t1:x1:y1:qe"))
	addHostile("raw/long-int", []byte("d1:ti"+strings.Repeat("9", 60000)+"ee"))
	addHostile("raw/int-junk", []byte("d1:tiXe1:y1:qe"))
	addHostile("raw/unsorted", []byte("d1:y1:q1:t2:hx1:q4:ping1:ad2:id20:"+id+"ee"))
	addHostile("raw/dup-keys", []byte("d1:q4:ping1:q9:find_node1:t2:hx1:y1:q1:ad2:id20:"+id+"ee"))
}

// ---- system under test -----------------------------------------------------------------------

type c01Sys struct {
	*Sys
	passiveLike bool
}

func c01Config(name string) ([]SysOpt, bool) {
	peerA, peerB := c01PeerA, c01PeerB
	starting := func(c *dht.ServerConfig) {
		c.StartingNodes = func() ([]dht.Addr, error) {
			return []dht.Addr{dht.NewAddr(peerA), dht.NewAddr(peerB)}, nil
		}
		c.QueryResendDelay = func() time.Duration { return time.Second }
	}
	cfg, ok := dgConfig(name)
	if !ok {
		return nil, false
	}
	return append([]SysOpt{starting}, cfg.Opts...), true
}

var (
	c01PeerA = sim.UDP4(31, 1, 1, 1, 3101)
	c01PeerB = sim.UDP4(31, 1, 1, 2, 3102)
	c01IDA   = sim.InBucket(sim.Root, 1, 5)
	c01IDB   = sim.InBucket(sim.Root, 1, 6)
)

// probe: the property's final clause.
func (y *c01Sys) probe(tag string) string {
	y.Take()
	src := &net.UDPAddr{IP: net.IP{77, 7, 7, byte(len(tag)%200 + 1)}, Port: 7000}
	before := y.S.NumNodes()
	ws, delivered := y.Deliver(src, sim.Query("probe", "ping", sim.M{"id": sim.IDStr(sim.InBucket(sim.Root, 4, 77))}))
	if !delivered {
		return "stopped-serving: the serve loop no longer reads datagrams"
	}
	if y.passiveLike {
		if y.S.NumNodes() != before+1 {
			return fmt.Sprintf("stopped-serving: passive node did not register the probing peer (nodes %d -> %d)", before, y.S.NumNodes())
		}
	} else {
		n := 0
		for _, o := range DecodeWrites(ws) {
			if o.Y() == "r" && o.T() == "probe" && o.To.String() == src.String() {
				n++
			}
		}
		if n != 1 {
			return fmt.Sprintf("silenced: fresh well-formed ping got %d replies (%s)", n, Briefs(ws))
		}
	}
	// public API returns
	done := make(chan struct{})
	go func() {
		y.S.Stats()
		y.S.NumNodes()
		y.S.Nodes()
		var sb strings.Builder
		y.S.WriteStatus(&sb)
		y.S.ID()
		y.S.Addr()
		close(done)
	}()
	synctest.Wait()
	select {
	case <-done:
	default:
		return "api-wedged: Stats/NumNodes/Nodes/WriteStatus did not return"
	}
	return ""
}

// start-state constructors
func (y *c01Sys) start(name string) {
	switch name {
	case "empty":
	case "table":
		for i := 1; i <= 11; i++ {
			p := sim.UDP4(41, 0, 0, byte(i), 4100+i)
			id := sim.InBucket(sim.Root, i%3, i)
			y.Deliver(p, sim.Query("st", "ping", sim.M{"id": sim.IDStr(id)}))
		}
	case "stored":
		for _, src := range []*net.UDPAddr{srcOther, srcV6} {
			if tok := y.fetchToken(src, "get_peers"); tok != "" {
				y.Deliver(src, sim.Query("st", "announce_peer", sim.M{"id": sim.IDStr(peerID), "info_hash": sim.IDStr(ihA), "port": 7, "token": tok}))
			}
			if tok := y.fetchToken(src, "get"); tok != "" {
				a := fullArgs("put")
				a["token"] = tok
				y.Deliver(src, sim.Query("st", "put", a))
			}
		}
	case "inflight":
		go y.S.Ping(c01PeerA)
		go y.S.FindNode(dht.NewAddr(c01PeerB), int160.FromByteArray(targetT), dht.QueryRateLimiting{})
		go func() {
			a, err := y.S.AnnounceTraversal(ihB, dht.AnnouncePeer(dht.AnnouncePeerOpts{Port: 9}))
			if err == nil {
				for range a.Peers {
				}
			}
		}()
		synctest.Wait()
	}
	y.Take()
}

// ---- hostile replies to the node's own operations ----------------------------------------------

type replyAlt struct {
	name string
	val  interface{} // nil = absent
}

func c01ReplyFields() map[string][]replyAlt {
	pub := pubOf(bepKey1)
	sig := refSign(bepKey1, []byte("s"), 1, sim.Enc("x"))
	nb := sim.CompactNode(c01IDB, c01PeerB.IP.To4(), c01PeerB.Port)
	n6 := sim.CompactNode(c01IDB, net.ParseIP("2001:db8::b"), 3102)
	return map[string][]replyAlt{
		"id":     {{"ok", sim.IDStr(c01IDA)}, {"19", strings.Repeat("i", 19)}, {"int", 3}, {"zero", string(make([]byte, 20))}, {"self", sim.IDStr(sim.Root)}},
		"nodes":  {{"ok", nb}, {"25", nb[:25]}, {"27", nb + "x"}, {"int", 9}, {"port0", nb[:24] + "\x00\x00"}, {"self", sim.CompactNode(sim.Root, net.IP{203, 0, 113, 1}, 4000)}},
		"nodes6": {{"ok", n6}, {"37", n6[:37]}, {"list", []interface{}{n6}}},
		"token":  {{"ok", "tokA"}, {"int", 5}, {"empty", ""}, {"list", []interface{}{"t"}}},
		"values": {{"6", []interface{}{"\x01\x02\x03\x04\x00\x09"}}, {"1", []interface{}{"x"}}, {"5", []interface{}{"12345"}}, {"7", []interface{}{"1234567"}}, {"18", []interface{}{strings.Repeat("6", 16) + "\x00\x09"}}, {"str", "notalist"}, {"ints", []interface{}{1, 2}}, {"empty", []interface{}{}}},
		"v":      {{"x", "x"}, {"int", 4}, {"list", []interface{}{"x"}}},
		"k":      {{"match", string(pub[:])}, {"zero", string(make([]byte, 32))}, {"31", strings.Repeat("k", 31)}, {"int", 1}},
		"sig":    {{"valid", string(sig)}, {"zero", string(make([]byte, 64))}, {"63", strings.Repeat("s", 63)}},
		"seq":    {{"1", 1}, {"str", "one"}, {"neg", -1}, {"max", int64(1<<63 - 1)}},
	}
}

var c01ReplyFieldOrder = []string{"id", "nodes", "nodes6", "token", "values", "v", "k", "sig", "seq"}

// c01ReplyLetters: every single alternative on top of {id ok}, and every pair of alternatives of
// two fields; plus malformed envelopes.
func c01ReplyLetters() (ls []string) {
	f := c01ReplyFields()
	for i, a := range c01ReplyFieldOrder {
		for _, x := range f[a] {
			ls = append(ls, "R:"+a+"="+x.name)
			for _, b := range c01ReplyFieldOrder[i+1:] {
				for _, z := range f[b] {
					ls = append(ls, "R:"+a+"="+x.name+","+b+"="+z.name)
				}
			}
		}
	}
	ls = append(ls, "R:", "X:no-r", "X:r=int", "X:r=str", "X:e-list", "X:e-str", "X:e-short", "X:e-nonint", "X:e-empty", "X:e-int-int", "X:e-int-list", "X:y=zz", "X:y-absent", "X:mutable-full", "X:k-match-no-seq", "X:immutable-ok")
	return
}

func c01BuildReply(letter, tid string) []byte {
	f := c01ReplyFields()
	if spec, ok := strings.CutPrefix(letter, "R:"); ok {
		r := sim.M{}
		hasID := false
		if spec != "" {
			for _, kv := range strings.Split(spec, ",") {
				k, v, _ := strings.Cut(kv, "=")
				for _, alt := range f[k] {
					if alt.name == v {
						r[k] = alt.val
					}
				}
				if k == "id" {
					hasID = true
				}
			}
		}
		if !hasID {
			r["id"] = sim.IDStr(c01IDA)
		}
		return sim.Enc(sim.M{"t": tid, "y": "r", "r": r})
	}
	pub := pubOf(bepKey1)
	switch letter {
	case "X:no-r":
		return sim.Enc(sim.M{"t": tid, "y": "r"})
	case "X:r=int":
		return sim.Enc(sim.M{"t": tid, "y": "r", "r": 1})
	case "X:r=str":
		return sim.Enc(sim.M{"t": tid, "y": "r", "r": "x"})
	case "X:e-list":
		return sim.ErrorMsg(tid, 201, "no")
	case "X:e-str":
		return sim.Enc(sim.M{"t": tid, "y": "e", "e": "no"})
	case "X:e-short":
		return sim.Enc(sim.M{"t": tid, "y": "e", "e": []interface{}{201}})
	case "X:e-nonint":
		return sim.Enc(sim.M{"t": tid, "y": "e", "e": []interface{}{"a", "b"}})
	case "X:e-empty":
		return sim.Enc(sim.M{"t": tid, "y": "e", "e": []interface{}{}})
	case "X:e-int-int":
		return sim.Enc(sim.M{"t": tid, "y": "e", "e": []interface{}{201, 202}})
	case "X:e-int-list":
		return sim.Enc(sim.M{"t": tid, "y": "e", "e": []interface{}{201, []interface{}{"x"}}})
	case "X:y=zz":
		return sim.Enc(sim.M{"t": tid, "y": "zz", "r": sim.M{"id": sim.IDStr(c01IDA)}})
	case "X:y-absent":
		return sim.Enc(sim.M{"t": tid, "r": sim.M{"id": sim.IDStr(c01IDA)}})
	case "X:mutable-full":
		return sim.Reply(tid, sim.M{"id": sim.IDStr(c01IDA), "token": "tokA", "k": string(pub[:]), "seq": 1, "v": "x", "sig": string(refSign(bepKey1, []byte("s"), 1, sim.Enc("x")))})
	case "X:k-match-no-seq":
		return sim.Reply(tid, sim.M{"id": sim.IDStr(c01IDA), "token": "tokA", "k": string(pub[:]), "v": "x", "sig": string(refSign(bepKey1, []byte("s"), 1, sim.Enc("x")))})
	case "X:immutable-ok":
		return sim.Reply(tid, sim.M{"id": sim.IDStr(c01IDA), "token": "tokA", "v": "imm"})
	}
	return nil
}

var c01Ops = []string{"ping", "find_node", "get_peers", "get", "put", "announce", "bootstrap", "gp.get-mut", "gp.get-imm", "gp.put"}

func (y *c01Sys) startOp(op string) {
	ctx := context.Background()
	a := dht.NewAddr(c01PeerA)
	pub := pubOf(bepKey1)
	mt := bep44.Target(mutableTarget(pub, []byte("s")))
	it := bep44.Target(sha1.Sum(sim.Enc("imm")))
	switch op {
	case "ping":
		go y.S.Ping(c01PeerA)
	case "find_node":
		go y.S.FindNode(a, int160.FromByteArray(targetT), dht.QueryRateLimiting{})
	case "get_peers":
		go y.S.GetPeers(ctx, a, int160.FromByteArray(ihA), true, dht.QueryRateLimiting{})
	case "get":
		go y.S.Get(ctx, a, mt, nil, dht.QueryRateLimiting{})
	case "put":
		go y.S.Put(ctx, a, bep44.Put{V: "x"}, "tok", dht.QueryRateLimiting{})
	case "announce":
		go func() {
			an, err := y.S.AnnounceTraversal(ihA, dht.AnnouncePeer(dht.AnnouncePeerOpts{Port: 9}), dht.Scrape())
			if err == nil {
				for range an.Peers {
				}
			}
		}()
	case "bootstrap":
		go y.S.Bootstrap()
	case "gp.get-mut":
		go getput.Get(ctx, mt, y.S, nil, []byte("s"))
	case "gp.get-imm":
		go getput.Get(ctx, it, y.S, nil, nil)
	case "gp.put":
		go getput.Put(ctx, krpc.ID(mt), y.S, []byte("s"), func(seq int64) bep44.Put {
			p := bep44.Put{V: "x", K: &pub, Salt: []byte("s"), Seq: seq + 1}
			p.Sign(bepKey1)
			return p
		})
	}
	synctest.Wait()
}

// answerFirst answers the first not yet answered outbound query with the hostile reply.
func (y *c01Sys) answerPending(letter string, all bool) int {
	n := 0
	for _, w := range y.Take() {
		o := DecodeWrites([]*sim.Write{w})[0]
		if o.Y() != "q" {
			continue
		}
		if b := c01BuildReply(letter, o.T()); b != nil {
			y.Conn.Inject(w.To, b)
			n++
		}
		if !all {
			break
		}
	}
	synctest.Wait()
	return n
}

// ---- runner ------------------------------------------------------------------------------------

// Unit: "cfg=<c>;start=<s>" ; letters:
//
//	D:<hostile name>[@src]   deliver one hostile datagram
//	OP:<op>                  start one of the node's own operations
//	R:... / X:...            answer every pending outbound query with this hostile reply
//	B:<corpus>:<from>:<to>   deliver the byte-neighbourhood slice of corpus message
//	T:<seconds>              let virtual time pass
//
// sync-level tier (schedule explorer), present only in overlay builds (build tag verife2)
var (
	c01SyncTier   func(t *testing.T, w *explore.Worker, idx *int)
	c01SyncReplay func(t *testing.T, c explore.Case) explore.Result
)

func runC01(t *testing.T, c explore.Case) (res explore.Result) {
	if strings.HasPrefix(c.Unit, "sync;") {
		if c01SyncReplay == nil {
			return explore.Result{Viol: "HARNESS: sync tier not built"}
		}
		return c01SyncReplay(t, c)
	}
	var cfgName, startName string
	for _, kv := range strings.Split(c.Unit, ";") {
		if v, ok := strings.CutPrefix(kv, "cfg="); ok {
			cfgName = v
		}
		if v, ok := strings.CutPrefix(kv, "start="); ok {
			startName = v
		}
	}
	opts, ok := c01Config(cfgName)
	if !ok {
		res.Viol = "HARNESS: unknown config"
		return
	}
	var obs []string
	p := Bubble(t, func() {
		// lim1 has a one-datagram send budget that the history may already have spent: there, as
		// for passive nodes, "still serving" is observed through the table instead of a reply.
		y := &c01Sys{Sys: NewSys(opts...), passiveLike: cfgName == "passive" || cfgName == "veto" || cfgName == "lim1"}
		defer y.Close()
		y.start(startName)
		for _, l := range c.H {
			res.Steps++
			switch {
			case strings.HasPrefix(l, "D:"):
				name, srcName, _ := strings.Cut(l[2:], "@")
				b, ok := hostileData[name]
				if !ok {
					res.Viol = "HARNESS: unknown hostile letter " + name
					return
				}
				// "<src>+tok": the write carries a token this node really issued to that source
				srcName, withTok := strings.CutSuffix(srcName, "+tok")
				src := srcV4
				if s, ok := sources[srcName]; ok {
					src = s
				}
				if withTok {
					via := "get"
					if y.Cfg.PeerStore != nil && strings.Contains(name, "announce_peer") {
						via = "get_peers"
					}
					if tok := y.fetchToken(src, via); tok != "" {
						b = bytes.ReplaceAll(b, []byte("5:TOKEN"), []byte(fmt.Sprintf("%d:%s", len(tok), tok)))
					}
					y.Take()
				}
				before := y.S.NumNodes()
				ws, delivered := y.Deliver(src, b)
				if !delivered {
					res.Viol = "stopped-serving: datagram " + name + " was not consumed"
					return
				}
				obs = append(obs, fmt.Sprintf("%d/%d", len(ws), y.S.NumNodes()-before))
			case strings.HasPrefix(l, "OP:"):
				y.startOp(l[3:])
			case strings.HasPrefix(l, "R:") || strings.HasPrefix(l, "X:"):
				// answer, then let the operation continue; answer follow-up queries the same way twice
				for round := 0; round < 3; round++ {
					if y.answerPending(l, true) == 0 {
						break
					}
				}
			case strings.HasPrefix(l, "T:"):
				s, _ := strconv.Atoi(l[2:])
				time.Sleep(time.Duration(s) * time.Second)
				synctest.Wait()
			case strings.HasPrefix(l, "B:"):
				f := strings.Split(l, ":")
				ci, _ := strconv.Atoi(f[1])
				from, _ := strconv.Atoi(f[2])
				to, _ := strconv.Atoi(f[3])
				ms := c01Neighbourhood(ci)
				for i := from; i < to && i < len(ms); i++ {
					if _, delivered := y.Deliver(srcV4, ms[i]); !delivered {
						res.Viol = fmt.Sprintf("stopped-serving: neighbourhood datagram %d of corpus %d (%q) was not consumed", i, ci, ms[i])
						return
					}
				}
			default:
				res.Viol = "HARNESS: bad letter " + l
				return
			}
		}
		// let everything in flight time out, then probe
		time.Sleep(40 * time.Second)
		synctest.Wait()
		if v := y.probe(strings.Join(c.H, "")); v != "" {
			res.Viol = v + " [after " + strings.Join(c.H, " ; ") + "]"
			return
		}
		if cfgName == "lim1" {
			// own queries legitimately wait for send budget (one datagram per 1000 h here):
			// let them have it so that the bubble can end
			time.Sleep(20000 * time.Hour)
			synctest.Wait()
		}
		res.Outcome = strings.Join(obs, ",")
		if len(res.Outcome) > 40 {
			res.Outcome = res.Outcome[:40]
		}
	})
	if p != "" && res.Viol == "" {
		res.Viol = "panic: " + p
	}
	return
}

func init() { runners["C01"] = runC01 }

// byte neighbourhood of corpus message ci: all truncations, then all substitutions.
func c01Neighbourhood(ci int) (out [][]byte) {
	corpus := c15Corpus()
	if ci >= len(corpus) {
		return nil
	}
	d := corpus[ci]
	for cut := 0; cut <= len(d); cut++ {
		out = append(out, d[:cut])
	}
	for pos := 0; pos < len(d); pos++ {
		for _, s := range c15Subst {
			if d[pos] == s {
				continue
			}
			m := append([]byte(nil), d...)
			m[pos] = s
			out = append(out, m)
		}
	}
	return
}

func TestC01(t *testing.T) {
	w := explore.NewWorker("C01")
	defer w.Finish()
	w.SetRule("(a) every letter of a structured hostile alphabet (9 methods x {no a, a of wrong type, every field removed or retyped, field length sweeps, port/want/seq/v/salt sweeps, t and y variants; every malformed announce_peer / put also behind a valid token}, unsolicited and malformed responses/errors, non-KRPC bytes: empty, truncated, oversize, 10000 keys, 30000-deep nesting, 60000-digit integer, unsorted/duplicate keys) in 6 configurations x 4 start states (empty, populated table, stored items and peers, queries and an announce in flight); (b) all ordered pairs of the letters that produced output or changed the table at depth 1; (c) the complete one-edit byte neighbourhood of a 42-datagram corpus; (d) every one of 10 own operations (ping, find_node, get_peers, get, put, announce, bootstrap, getput.Get mutable/immutable, getput.Put) answered with every single and pairwise combination of benign/malformed reply fields and malformed envelopes; after each history: virtual 40 s, then a fresh ping must be answered (or registered, when passive) and the API must return; a dead or wedged worker is a violation attributed through the write-ahead journal")
	idx := 0
	if c01SyncTier != nil {
		c01SyncTier(t, w, &idx)
	}
	exec := func(unit string, h []string) explore.Result {
		c := explore.Case{Prop: "C01", Unit: unit, H: h}
		w.Journal(c)
		r := runC01(t, c)
		w.Record(c, r)
		w.AddStates(1)
		return r
	}
	starts := []string{"empty", "table", "stored", "inflight"}
	// (a) singles
	for _, cfg := range dgConfigs() {
		for _, st := range starts {
			for part := 0; part < 4; part++ {
				u := idx
				idx++
				if !w.Mine(u) {
					continue
				}
				unit := "cfg=" + cfg.Name + ";start=" + st
				w.BeginUnit(u, unit+fmt.Sprintf(";singles-%d", part))
				for i, n := range hostileNames {
					if i%4 != part {
						continue
					}
					src := []string{"v4", "v6", "mapped"}[i%3]
					exec(unit, []string{"D:" + n + "@" + src})
					if strings.HasPrefix(n, "q/put/") || strings.HasPrefix(n, "q/announce_peer/") {
						// the same malformed write behind a token that passes the token check
						exec(unit, []string{"D:" + n + "@" + src + "+tok"})
					}
				}
				w.Flush(false)
			}
		}
	}
	w.Bound("hostile_letters", len(hostileNames))
	// (d) hostile replies
	replies := c01ReplyLetters()
	w.Bound("reply_letters", len(replies))
	for _, cfgName := range []string{"default", "peerstore", "secure"} {
		for _, op := range c01Ops {
			for part := 0; part < 2; part++ {
				u := idx
				idx++
				if !w.Mine(u) {
					continue
				}
				if cfgName != "default" && !w.Thorough() && part == 1 {
					continue
				}
				unit := "cfg=" + cfgName + ";start=empty"
				w.BeginUnit(u, unit+";op="+op)
				for i, rl := range replies {
					if i%2 != part {
						continue
					}
					exec(unit, []string{"OP:" + op, rl})
				}
				w.Flush(false)
			}
		}
	}
	// (c) byte neighbourhood in slices of 64
	ncorpus := len(c15Corpus())
	for ci := 0; ci < ncorpus; ci++ {
		u := idx
		idx++
		if !w.Mine(u) {
			continue
		}
		w.BeginUnit(u, fmt.Sprintf("bytes-%d", ci))
		n := len(c01Neighbourhood(ci))
		for from := 0; from < n; from += 64 {
			exec("cfg=peerstore;start=empty", []string{fmt.Sprintf("B:%d:%d:%d", ci, from, from+64)})
		}
		w.Flush(false)
	}
	// (b) pairs of interesting letters (measured on the default configuration)
	var interesting []string
	for _, n := range hostileNames {
		mc := explore.Case{Prop: "C01", Unit: "cfg=peerstore;start=empty", H: []string{"D:" + n}}
		w.Journal(mc)
		r := runC01(t, mc)
		w.EndCase()
		if r.Viol != "" && w.ShardI == 0 {
			w.Violate(mc, r.Viol)
		}
		if r.Outcome != "0/0" {
			interesting = append(interesting, n)
		}
	}
	w.Bound("interesting_letters", len(interesting))
	lim := len(interesting)
	if !w.Thorough() && lim > 60 {
		lim = 60
		w.Note(fmt.Sprintf("quick tier: pairs over the first 60 of %d interesting letters", len(interesting)))
	}
	for i := 0; i < lim; i++ {
		u := idx
		idx++
		if !w.Mine(u) {
			continue
		}
		if w.OutOfTime() {
			w.Cap("time budget hit in the pairs phase")
			break
		}
		w.BeginUnit(u, "pairs-"+interesting[i])
		for j := 0; j < lim; j++ {
			exec("cfg=peerstore;start=table", []string{"D:" + interesting[i] + "@v4", "D:" + interesting[j] + "@v6"})
		}
		w.Flush(false)
	}
}
