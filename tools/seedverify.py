#!/usr/bin/env python3
"""Verify a seeded change the way the brief demands, in a scratch worktree of /repo's HEAD:
patch applies, library builds, the existing suite passes with it, the demonstration fails with it
and passes without it. Then (optionally) run our check(s) against it in /repo itself and revert.

usage: tools/seedverify.py <dir-with-patch.diff+demo+meta.json> [--check ID[,ID..]] [--tier quick]
Prints a JSON summary on the last line.
"""
import json, os, re, shutil, subprocess, sys, tempfile

ENV = dict(os.environ, GOFLAGS="-mod=mod", GOPROXY="off", GOSUMDB="off", GOTOOLCHAIN="local")


def sh(cmd, cwd, timeout=900):
    r = subprocess.run(cmd, cwd=cwd, env=ENV, shell=isinstance(cmd, str), stdout=subprocess.PIPE, stderr=subprocess.STDOUT, text=True, timeout=timeout)
    return r.returncode, r.stdout


def demo_files(d):
    out = []
    for f in sorted(os.listdir(d)):
        if f.endswith(".go"):
            txt = open(os.path.join(d, f)).read()
            m = re.search(r"place at:\s*([^\s(]+)", txt)
            dest = m.group(1) if m else f
            if dest.endswith("/"):
                dest = dest + f
            out.append((f, dest))
    return out


def main():
    d = os.path.abspath(sys.argv[1])
    checks, tier = [], "quick"
    a = sys.argv[2:]
    while a:
        if a[0] == "--check":
            checks = a[1].split(",")
            a = a[2:]
        elif a[0] == "--tier":
            tier = a[1]
            a = a[2:]
        else:
            a = a[1:]
    patch = os.path.join(d, "patch.diff")
    res = {"dir": d}
    wt = tempfile.mkdtemp(prefix="seedv-", dir="/tmp")
    os.rmdir(wt)
    try:
        rc, out = sh(["git", "-C", "/repo", "worktree", "add", "-q", "--detach", wt, "HEAD"], "/repo")
        assert rc == 0, out
        rc, out = sh(["git", "apply", "--check", patch], wt)
        res["applies"] = rc == 0
        if rc != 0:
            rc3, out3 = sh(["git", "apply", "--3way", patch], wt)
            res["applies_3way"] = rc3 == 0
            if rc3 != 0:
                res["error"] = out[-400:]
                print(json.dumps(res))
                return
            sh(["git", "reset", "-q"], wt)
            # regenerate the patch against HEAD
            rc, newp = sh(["git", "diff"], wt)
            open(patch, "w").write(newp)
            sh(["git", "checkout", "--", "."], wt)
            res["rebased"] = True
        demos = demo_files(d)
        res["demos"] = [x[1] for x in demos]
        # demo without the change
        for f, dest in demos:
            os.makedirs(os.path.dirname(os.path.join(wt, dest)) or wt, exist_ok=True)
            shutil.copyfile(os.path.join(d, f), os.path.join(wt, dest))
        pkgs = sorted({"./" + (os.path.dirname(dest) or ".") for _, dest in demos})
        runpat = "Mut|mut|C[0-9][0-9]"
        rc, out = sh(["go", "test", "-vet=off", "-count=1", "-run", runpat] + pkgs, wt)
        res["demo_passes_without"] = rc == 0
        if rc != 0:
            res["demo_without_out"] = out[-600:]
        # with the change
        rc, out = sh(["git", "apply", patch], wt)
        assert rc == 0, out
        rc, out = sh(["go", "build", "./..."], wt)
        res["builds"] = rc == 0
        rc, out = sh(["go", "test", "-vet=off", "-count=1", "-run", runpat] + pkgs, wt)
        res["demo_fails_with"] = rc != 0
        res["demo_with_tail"] = out[-300:]
        for f, dest in demos:
            os.remove(os.path.join(wt, dest))
        rc, out = sh("go test -vet=off -count=1 ./... 2>&1 | grep -v 'no test files'", wt)
        res["suite_passes_with"] = ("FAIL" not in out) and ("ok" in out)
        if not res["suite_passes_with"]:
            res["suite_out"] = out[-600:]
    finally:
        sh(["git", "-C", "/repo", "worktree", "remove", "--force", wt], "/repo")
        shutil.rmtree(wt, ignore_errors=True)
    # our checks against it, in /repo itself
    res["checks"] = {}
    for cid in checks:
        rc, out = sh(["/verif/tools/trymut.sh", patch, cid, tier], "/verif", timeout=3600)
        m = re.search(r"rc=(\d+)", out)
        lines = [l for l in out.splitlines() if l.startswith("VIOLATION") or l.startswith("  ") or "violations=" in l or "HARNESS" in l]
        res["checks"][cid] = {"rc": int(m.group(1)) if m else None, "out": lines[:6]}
    print(json.dumps(res, indent=1))


if __name__ == "__main__":
    main()
