package props

import (
	"fmt"
	"sort"
	"strings"
	"sync"
	"testing"
	"testing/synctest"
	"time"

	"github.com/anacrolix/dht/v2"

	"verif/explore"
	"verif/sim"
)

// C16 — announce hands each node back its own token, and always finishes.
//
// Real Server.AnnounceTraversal over simulated networks of up to 4 peers; every order in which the
// pending get_peers / announce_peer queries are answered or time out, with Close / StopTraversing
// inserted at every position, is explored (DFS over "answer pending query to X" / "let time pass" /
// "stop" letters with canonical-state dedup).

// behaviours: n = token + nodes, v = token + values (+nodes), x = no token, e = empty token,
// r = error reply, s = silent, o = answers under another ID (token + nodes)
type c16Scn struct {
	Beh      string // one letter per peer p1..pN
	Opt      string // port | implied | scrape | none
	Consumer string // all | stop<k>
	Stop     string // "" | close | stoptrav   (may be inserted once at any position)
	Starts   int    // how many of the peers are starting nodes
	Sec      bool   // ServerConfig.NoSecurity=false: peers have BEP 42 valid IDs, 'o' answers under an invalid one
}

func (s c16Scn) unit() string {
	u := fmt.Sprintf("cons=%s;beh=%s;opt=%s;stop=%s;starts=%d", s.Consumer, s.Beh, s.Opt, s.Stop, s.Starts)
	if s.Sec {
		u += ";sec=1"
	}
	return u
}

func parseC16(unit string) (s c16Scn) {
	m := kv(strings.Split(unit, ";"))
	s.Beh, s.Opt, s.Consumer, s.Stop = m["beh"], m["opt"], m["cons"], m["stop"]
	fmt.Sscanf(m["starts"], "%d", &s.Starts)
	s.Sec = m["sec"] == "1"
	return
}

func c16Peers(beh string, sec bool) []*simPeer {
	var ps []*simPeer
	for i := range beh {
		// IDs at increasing distance from the infohash ihA
		id := ihA
		id[19] ^= byte(i + 1)
		p := &simPeer{Name: fmt.Sprintf("p%d", i+1), Addr: sim.UDP4(70, 0, 0, byte(i+1), 7001+i), ID: id}
		if sec {
			// BEP 42 valid for the peer's address, by the independent reference
			pre := refSecurePrefix(p.Addr.IP, id[19])
			p.ID[0], p.ID[1], p.ID[2] = pre[0], pre[1], pre[2]|(id[2]&7)
			if !refSecure(p.ID, p.Addr.IP) {
				panic("c16Peers: reference-made ID is not secure")
			}
		}
		ps = append(ps, p)
	}
	for i, b := range beh {
		p := ps[i]
		// topology: p_i lists every later peer
		p.Nodes = append([]*simPeer(nil), ps[i+1:]...)
		switch b {
		case 'n':
			p.Token = strp("tok:" + p.Name)
		case 'v':
			p.Token = strp("tok:" + p.Name)
			p.Values = []string{sim.Compact([]byte{9, 9, 9, byte(i + 1)}, 999)}
		case 'x':
		case 'e':
			p.Token = strp("")
		case 'r':
			p.ErrReply = true
		case 's':
			p.Silent = true
		case 'o':
			p.Token = strp("tok:" + p.Name)
			other := ihA
			other[19] ^= byte(0x40 + i)
			if sec && refSecure(other, p.Addr.IP) {
				other[0] ^= 0x80
			}
			p.ClaimID = &other
		}
	}
	return ps
}

type c16Delivery struct {
	Addr string
	ID   string
}

func runC16(t *testing.T, c explore.Case) (res explore.Result, enabled []string) {
	scn := parseC16(c.Unit)
	var outcome string
	pan := Bubble(t, func() {
		peers := c16Peers(scn.Beh, scn.Sec)
		y := NewSys(func(cfg *dht.ServerConfig) {
			cfg.NoSecurity = !scn.Sec
			cfg.QueryResendDelay = func() time.Duration { return time.Second }
			cfg.StartingNodes = func() ([]dht.Addr, error) {
				var out []dht.Addr
				for _, p := range peers[:scn.Starts] {
					out = append(out, dht.NewAddr(p.Addr))
				}
				return out, nil
			}
		})
		defer y.Close()
		net := newSimNet(y, peers...)
		var opts []dht.AnnounceOpt
		switch scn.Opt {
		case "port":
			opts = append(opts, dht.AnnouncePeer(dht.AnnouncePeerOpts{Port: 6881}))
		case "implied":
			opts = append(opts, dht.AnnouncePeer(dht.AnnouncePeerOpts{ImpliedPort: true}))
		case "scrape":
			opts = append(opts, dht.Scrape(), dht.AnnouncePeer(dht.AnnouncePeerOpts{Port: 6881}))
		}
		ann, err := y.S.AnnounceTraversal(ihA, opts...)
		if err != nil {
			res.Viol = "start: AnnounceTraversal failed: " + err.Error()
			return
		}
		var mu sync.Mutex
		var got []c16Delivery
		peersClosed := false
		reading := true
		limit := -1
		if strings.HasPrefix(scn.Consumer, "stop") {
			fmt.Sscanf(scn.Consumer, "stop%d", &limit)
		}
		if strings.HasPrefix(scn.Consumer, "abandon") {
			fmt.Sscanf(scn.Consumer, "abandon%d", &limit)
		}
		resume := make(chan struct{})
		go func() {
			n := 0
			for {
				if limit >= 0 && n >= limit {
					mu.Lock()
					reading = false
					mu.Unlock()
					<-resume // stops reading until the harness lets it drain (after Close)
					limit = -1
					mu.Lock()
					reading = true
					mu.Unlock()
				}
				pv, ok := <-ann.Peers
				if !ok {
					mu.Lock()
					peersClosed = true
					mu.Unlock()
					return
				}
				n++
				mu.Lock()
				got = append(got, c16Delivery{pv.NodeInfo.Addr.String(), string(pv.NodeInfo.ID[:])})
				mu.Unlock()
			}
		}()
		resumed := false
		// teardown: whatever state the history ends in, stop everything so the bubble can end
		defer func() {
			ann.Close()
			if !resumed {
				resumed = true
				close(resume)
			}
			synctest.Wait()
			time.Sleep(5 * time.Second)
			synctest.Wait()
		}()
		synctest.Wait()
		net.collect()
		// what the harness delivered: responses (with the consumer state at that time)
		type delivered struct {
			p       *simPeer
			reading bool
		}
		var responses []delivered
		answered := map[*pendingQ]string{}
		stopUsed := ""
		closedAnn := false
		find := func(addr, method string) *pendingQ {
			for _, q := range net.open() {
				if q.To.String() == addr && q.Q == method {
					return q
				}
			}
			return nil
		}
		for i, l := range c.H {
			res.Steps++
			f := strings.SplitN(l, "|", 3)
			switch f[0] {
			case "A":
				q := find(f[1], f[2])
				if q == nil {
					res.Viol = fmt.Sprintf("HARNESS: step %d %s: no such pending query (pending: %s)", i, l, net.summary())
					return
				}
				mu.Lock()
				rd := reading
				mu.Unlock()
				if net.answer(q) {
					answered[q] = "answered"
					if q.Q == "get_peers" && q.Peer != nil && !q.Peer.ErrReply {
						responses = append(responses, delivered{q.Peer, rd})
					}
				}
			case "T":
				time.Sleep(time.Second + time.Nanosecond)
				for _, q := range net.open() {
					if time.Since(q.First.At) > time.Second {
						q.Done = true
						answered[q] = "timeout"
					}
				}
			case "X":
				stopUsed = f[1]
				if f[1] == "close" {
					ann.Close()
					closedAnn = true
				} else {
					ann.StopTraversing()
				}
				synctest.Wait()
				net.collect()
				// cancelled get_peers queries are gone
				for _, q := range net.open() {
					if q.Q == "get_peers" {
						q.Done = true
						answered[q] = "cancelled"
					}
					if q.Q == "announce_peer" && closedAnn {
						q.Done = true
						answered[q] = "cancelled"
					}
				}
				mu.Lock()
				rd := reading
				mu.Unlock()
				if !rd && closedAnn && !resumed && !strings.HasPrefix(scn.Consumer, "abandon") {
					resumed = true
					close(resume) // the consumer drains after Close, as the API asks
				}
			}
			synctest.Wait()
			net.collect()
		}
		// After Close the announce goroutine may still start announce_peer queries that its own
		// cancellation watcher kills at once; whether their first datagram reaches the socket is a
		// race inside the implementation that the runtime decides. They are not answerable events.
		if closedAnn {
			for _, q := range net.open() {
				if q.Q == "announce_peer" {
					q.Done = true
					answered[q] = "cancelled"
				}
			}
		}
		// enabled letters in the state reached
		open := net.open()
		for _, q := range open {
			if q.Peer != nil && !q.Peer.Silent {
				enabled = append(enabled, "A|"+q.To.String()+"|"+q.Q)
			}
		}
		sort.Strings(enabled)
		if len(open) > 0 && (len(scn.Beh) <= 4 || len(enabled) == 0) {
			// networks of more than 4 peers: every order of the answers, time-outs only for silent peers
			enabled = append(enabled, "T")
		}
		finished := false
		select {
		case <-ann.Finished():
			finished = true
		default:
		}
		if scn.Stop != "" && stopUsed == "" && !finished {
			enabled = append(enabled, "X|"+scn.Stop)
		}
		// canonical key
		var ks []string
		for _, q := range net.allQ {
			st := answered[q]
			if st == "" {
				st = "open"
			}
			if closedAnn && q.Q == "announce_peer" && st == "cancelled" {
				continue // see above: presence is decided by the runtime
			}
			ks = append(ks, q.To.String()+"/"+q.Q+"/"+st)
		}
		sort.Strings(ks)
		mu.Lock()
		ngot := len(got)
		mu.Unlock()
		res.Key = fmt.Sprintf("%v|stop=%s|got=%d|fin=%v", ks, stopUsed, ngot, finished)

		// ---- oracles that hold in every state ----
		mu.Lock()
		gotNow := append([]c16Delivery(nil), got...)
		closedNow := peersClosed
		readingNow := reading
		mu.Unlock()
		// deliveries: each only for a delivered response, at most once
		want := map[string]int{}
		must := map[string]int{}
		for _, d := range responses {
			id := d.p.ID
			if d.p.ClaimID != nil {
				id = *d.p.ClaimID
			}
			k := d.p.Addr.String() + "|" + string(id[:])
			want[k]++
			// a consumer that pauses and later drains Peers to the end still "keeps reading": only a
			// consumer that abandons the channel for good releases the announce from delivering
			if d.reading || !strings.HasPrefix(scn.Consumer, "abandon") {
				must[k]++
			}
		}
		seen := map[string]int{}
		for _, g := range gotNow {
			k := g.Addr + "|" + g.ID
			seen[k]++
			if seen[k] > want[k] {
				res.Viol = fmt.Sprintf("peers-extra: Peers delivered %s (id %x) %d times, %d get_peers responses were received from it", g.Addr, g.ID, seen[k], want[k])
				return
			}
		}
		// announce_peer discipline
		expectPort, expectImplied := int64(0), int64(0)
		announcing := scn.Opt != "none"
		switch scn.Opt {
		case "port", "scrape":
			expectPort = 6881
		case "implied":
			expectImplied = 1
		}
		tokenOf := map[string]*string{}
		tokDist := map[string]string{}
		for _, d := range responses {
			if scn.Sec && d.p.ClaimID != nil && !refSecure(*d.p.ClaimID, d.p.Addr.IP) {
				// answered under an ID that is not valid for its address: never a member of the
				// closest set when security is enforced
				continue
			}
			tokenOf[d.p.Addr.String()] = d.p.Token
			if d.p.Token != nil {
				rid := d.p.ID
				if d.p.ClaimID != nil {
					rid = *d.p.ClaimID
				}
				var dist [20]byte
				for i := range dist {
					dist[i] = rid[i] ^ ihA[i]
				}
				tokDist[d.p.Addr.String()] = string(dist[:])
			}
		}
		// The final closest set, by reference: the K=8 token responders nearest (XOR, by the ID each
		// answered under) to the infohash. Only decidable from the delivery log when the traversal
		// ran to its own stall (no Close / StopTraversing); with at most K token responders every one
		// of them is a member.
		notMember := map[string]bool{}
		if scn.Stop == "" && len(tokDist) > 8 {
			var order []string
			for a := range tokDist {
				order = append(order, a)
			}
			sort.Slice(order, func(i, j int) bool { return tokDist[order[i]] < tokDist[order[j]] })
			for _, a := range order[8:] {
				notMember[a] = true
			}
		}
		perDest := map[string]int{}
		for _, q := range net.allQ {
			if q.Q != "announce_peer" {
				continue
			}
			dst := q.To.String()
			perDest[dst]++
			if !announcing {
				res.Viol = "announce-not-enabled: announce_peer sent to " + dst + " although announcing is not enabled"
				return
			}
			tok, responded := tokenOf[dst]
			if !responded || tok == nil {
				res.Viol = fmt.Sprintf("announce-outside-closest: announce_peer sent to %s, which did not answer get_peers with a token in this traversal%s", dst, map[bool]string{true: " under a node ID that is valid for its address (security is enforced)", false: ""}[scn.Sec])
				return
			}
			if notMember[dst] {
				res.Viol = fmt.Sprintf("announce-outside-closest: announce_peer sent to %s, which answered with a token but is not among the 8 token responders closest to the infohash (%d answered with a token)", dst, len(tokDist))
				return
			}
			if perDest[dst] > 1 {
				res.Viol = fmt.Sprintf("announce-twice: %d announce_peer queries to %s", perDest[dst], dst)
				return
			}
			a := q.A
			if gt, _ := sim.Str(a, "token"); gt != *tok {
				res.Viol = fmt.Sprintf("wrong-token: announce_peer to %s carries token %q, that node returned %q", dst, gt, *tok)
				return
			}
			if ih, _ := sim.Str(a, "info_hash"); ih != sim.IDStr(ihA) {
				res.Viol = fmt.Sprintf("wrong-infohash: announce_peer to %s carries info_hash %x", dst, ih)
				return
			}
			ip, _ := a["implied_port"].(int64)
			port, _ := a["port"].(int64)
			if ip != expectImplied || (expectImplied == 0 && port != expectPort) {
				res.Viol = fmt.Sprintf("wrong-port: announce_peer to %s carries port=%d implied_port=%d, configured port=%d implied=%d", dst, port, ip, expectPort, expectImplied)
				return
			}
		}
		// ---- terminal state: nothing pending ----
		if len(open) == 0 {
			res.Stop = true
			time.Sleep(3 * time.Second)
			synctest.Wait()
			if n := len(net.collect()); n > 0 {
				res.Stop = false // new queries appeared after time passed: not terminal
				return
			}
			mu.Lock()
			gotNow = append([]c16Delivery(nil), got...)
			closedNow = peersClosed
			readingNow = reading
			mu.Unlock()
			select {
			case <-ann.Finished():
				finished = true
			default:
			}
			if !readingNow && !closedAnn {
				// the consumer stopped reading and nobody closed the announce: outside the property
				outcome = "consumer-stalled"
				return
			}
			if !finished || !closedNow {
				res.Viol = fmt.Sprintf("not-finished: every query has been answered or timed out (stop=%q), but Finished()=%v and Peers closed=%v", stopUsed, finished, closedNow)
				return
			}
			seen = map[string]int{}
			for _, g := range gotNow {
				seen[g.Addr+"|"+g.ID]++
			}
			for k, n := range must {
				if seen[k] < n {
					res.Viol = fmt.Sprintf("peers-missing: a get_peers response from %s was received while the consumer was reading but was not delivered on Peers (%d of %d)", strings.SplitN(k, "|", 2)[0], seen[k], n)
					return
				}
			}
			if announcing && !closedAnn {
				for dst, tok := range tokenOf {
					if tok != nil && !notMember[dst] && perDest[dst] != 1 {
						res.Viol = fmt.Sprintf("announce-missing: %s answered get_peers with a token and belongs to the closest set, but got %d announce_peer", dst, perDest[dst])
						return
					}
				}
			}
			outcome = fmt.Sprintf("fin deliveries=%d announces=%d stop=%s", len(gotNow), len(perDest), stopUsed)
		}
	})
	if pan != "" && res.Viol == "" {
		res.Viol = "bubble: " + firstLineOf(pan)
	}
	if strings.HasPrefix(res.Viol, "HARNESS") {
		res.Viol = "HARNESS-" + res.Viol
	}
	res.Outcome = outcome
	return
}

func init() {
	runners["C16"] = func(t *testing.T, c explore.Case) explore.Result { r, _ := runC16(t, c); return r }
}

func c16Scenarios(thorough bool) (out []c16Scn) {
	behs := "nvxerso"
	// all assignments for 3 peers, announce with a port, consumer reads everything
	for _, a := range behs {
		for _, b := range behs {
			for _, c := range behs {
				out = append(out, c16Scn{Beh: string([]rune{a, b, c}), Opt: "port", Consumer: "all", Starts: 1})
			}
		}
	}
	if thorough {
		// all assignments for 4 peers (7^4), two starting nodes, implied port
		for _, a := range behs {
			for _, b := range behs {
				for _, c := range behs {
					for _, d := range behs {
						out = append(out, c16Scn{Beh: string([]rune{a, b, c, d}), Opt: "implied", Consumer: "all", Starts: 2})
					}
				}
			}
		}
		// all assignments for 3 peers with Close / StopTraversing at every position
		for _, a := range behs {
			for _, b := range behs {
				for _, c := range behs {
					for _, stop := range []string{"close", "stoptrav"} {
						out = append(out, c16Scn{Beh: string([]rune{a, b, c}), Opt: "port", Consumer: "all", Stop: stop, Starts: 1})
					}
				}
			}
		}
	}
	// options x stop actions x consumers on designed networks
	designed := []string{"nnn", "nvx", "vne", "nsn", "onr", "nnnn", "vxse", "nnsn"}
	if thorough {
		designed = append(designed, "vvv", "eee", "xnx", "rnn", "snv", "novx", "nnon", "ssnn")
	}
	for _, d := range designed {
		for _, opt := range []string{"port", "implied", "scrape", "none"} {
			for _, stop := range []string{"", "close", "stoptrav"} {
				for _, cons := range []string{"all", "stop0", "stop1"} {
					if cons != "all" && stop != "close" {
						continue // a consumer that stops reading must close the announce (else: outside the property)
					}
					for _, starts := range []int{1, 2} {
						if !thorough && (starts == 2 && opt != "port") {
							continue
						}
						out = append(out, c16Scn{Beh: d, Opt: opt, Consumer: cons, Stop: stop, Starts: starts})
					}
				}
			}
		}
	}
	// more token responders than K: the closest set overflows, far responders answer after it is full
	out = append(out, c16Scn{Beh: "nnnnnnnnnn", Opt: "port", Consumer: "all", Starts: 1})
	if thorough {
		out = append(out, c16Scn{Beh: "nnnnnnnnnn", Opt: "implied", Consumer: "all", Starts: 2},
			c16Scn{Beh: "nvnnxnnnnnn", Opt: "port", Consumer: "all", Starts: 1})
	}
	// BEP 42 enforced (NoSecurity=false): responders with valid IDs, responders answering under an
	// ID that is not valid for their address ('o'), and tokenless ones
	for _, a := range "nox" {
		for _, b := range "nox" {
			for _, c := range "nox" {
				for _, starts := range []int{1, 2} {
					out = append(out, c16Scn{Beh: string([]rune{a, b, c}), Opt: "port", Consumer: "all", Starts: starts, Sec: true})
				}
			}
		}
	}
	for _, d := range []string{"onvo", "nono"} {
		for _, stop := range []string{"", "close", "stoptrav"} {
			out = append(out, c16Scn{Beh: d, Opt: "implied", Consumer: "all", Stop: stop, Starts: 2, Sec: true})
		}
	}
	// a consumer that stops reading for good and closes the announce (known finding K2)
	for _, d := range []string{"nnn", "nvx"} {
		for _, cons := range []string{"abandon0", "abandon1"} {
			out = append(out, c16Scn{Beh: d, Opt: "port", Consumer: cons, Stop: "close", Starts: 1})
		}
	}
	return
}

func TestC16(t *testing.T) {
	w := explore.NewWorker("C16")
	defer w.Finish()
	w.SetRule("real Server.AnnounceTraversal over simulated networks of 3-4 peers (peer i lists the later peers; behaviours per peer: token+nodes, token+values, no token, empty token, error reply, silent, answers under another ID; all 343 assignments for 3 peers plus designed 3- and 4-peer networks; thorough: all 2401 assignments for 4 peers and all 3-peer assignments with Close / StopTraversing at every position) x options {port, implied_port, scrape+port, no announce} x consumer {reads to the end, stops reading after 0/1 deliveries and closes} x {no stop, Close, StopTraversing inserted at every position} x 1-2 starting nodes; DFS over all orders of answering / timing out the pending get_peers and announce_peer queries with canonical-state dedup; oracles in every state and at every terminal state")
	scns := c16Scenarios(w.Thorough())
	w.Bound("scenarios", len(scns))
	states := 0
	for i, scn := range scns {
		if !w.Mine(i) {
			continue
		}
		if w.OutOfTime() {
			w.Cap("time budget hit before scenario " + scn.unit())
			continue
		}
		unit := scn.unit()
		w.BeginUnit(i, unit)
		seen := map[string]struct{}{}
		det := 2
		var rec func(h []string)
		rec = func(h []string) {
			if w.OutOfTime() {
				w.Cap("time budget hit inside scenario " + unit)
				return
			}
			c := explore.Case{Prop: "C16", Unit: unit, H: append([]string(nil), h...)}
			w.Journal(c)
			r, en := runC16(t, c)
			if det > 0 && r.Viol == "" {
				det--
				r2, en2 := runC16(t, c)
				if r2.Key != r.Key || fmt.Sprint(en) != fmt.Sprint(en2) {
					w.Harness(fmt.Sprintf("nondeterministic replay of %v", c))
				}
			}
			w.Record(c, r)
			if r.Viol != "" || r.Stop {
				return
			}
			if _, ok := seen[r.Key]; ok {
				return
			}
			seen[r.Key] = struct{}{}
			if len(h) > 24 {
				w.Violate(c, "horizon: more than 24 steps without reaching a state with nothing pending")
				return
			}
			for _, a := range en {
				rec(append(h, a))
			}
		}
		rec(nil)
		states += len(seen)
		w.Flush(false)
	}
	w.AddStates(states)
}
