//go:build verife2

package props

import (
	"fmt"
	"sort"
	"strconv"
	"strings"
	"testing"
	"time"

	"verif/explore"
)

// C02, C03, C04: schedule exploration (E2) of the real traversal.Operation.

func tc(id byte, addr int) tContact { return tContact{id, addr} }

// fine-tier scenarios (explored at synchronisation-point granularity)
func travScenarios() []*tScenario {
	var out []*tScenario
	add := func(s *tScenario) { out = append(out, s) }
	chain := map[int]tPeer{
		9: {Claim: 9, Nodes: []tContact{tc(3, 3)}},
		3: {Claim: 3, Nodes: []tContact{tc(2, 2)}},
		2: {Claim: 2, Nodes: []tContact{tc(1, 1)}},
		1: {Claim: 1},
	}
	add(&tScenario{Name: "min", Small: true, K: 1, Alpha: 1, Peers: map[int]tPeer{9: {Claim: 9, Nodes: []tContact{tc(1, 1)}}, 1: {Claim: 1}},
		Adds: [][]tContact{{tc(0, 9)}}, Polls: 1, Expect: []byte{1}})
	add(&tScenario{Name: "chain", Small: true, K: 2, Alpha: 2, Peers: chain, Adds: [][]tContact{{tc(0, 9)}}, Polls: 1, Expect: []byte{1, 2}})
	add(&tScenario{Name: "chain-stop", K: 2, Alpha: 2, Peers: chain, Adds: [][]tContact{{tc(0, 9)}}, Stop: true, Polls: 1})
	add(&tScenario{Name: "fill-race", K: 2, Alpha: 3, Peers: map[int]tPeer{
		5: {Claim: 5, Nodes: []tContact{tc(1, 1)}}, 6: {Claim: 6, Nodes: []tContact{tc(2, 2)}}, 7: {Claim: 7},
		1: {Claim: 1}, 2: {Claim: 2}},
		Adds: [][]tContact{{tc(5, 5), tc(6, 6), tc(7, 7)}}, Polls: 1, Expect: []byte{1, 2}})
	add(&tScenario{Name: "dup-id", K: 2, Alpha: 2, Peers: map[int]tPeer{
		8: {Claim: 8, Nodes: []tContact{tc(3, 3), tc(3, 4), tc(5, 5)}}, 3: {Claim: 3}, 4: {Claim: 3}, 5: {Claim: 5}},
		Adds: [][]tContact{{tc(0, 8)}}, Polls: 1, Expect: []byte{3, 3}})
	add(&tScenario{Name: "dup-id-k1", K: 1, Alpha: 1, Peers: map[int]tPeer{
		8: {Claim: 8, Nodes: []tContact{tc(3, 3), tc(3, 4)}}, 3: {Claim: 3}, 4: {Claim: 3}},
		Adds: [][]tContact{{tc(0, 8)}}, Polls: 1, Expect: []byte{3}})
	// one node ID answering at one IP under two ports (addresses 3 and 19 = 10.0.0.3:1000 / :1001):
	// two distinct responders
	add(&tScenario{Name: "dup-id-same-host", K: 3, Alpha: 2, Peers: map[int]tPeer{
		8: {Claim: 8, Nodes: []tContact{tc(1, 3), tc(1, 19), tc(4, 4)}}, 3: {Claim: 1}, 19: {Claim: 1}, 4: {Claim: 4}},
		Adds: [][]tContact{{tc(0, 8)}}, Polls: 1, Expect: []byte{1, 1, 4}})
	add(&tScenario{Name: "dup-id-same-host-k2", K: 2, Alpha: 2, Peers: map[int]tPeer{
		8: {Claim: 8, Nodes: []tContact{tc(1, 3), tc(1, 19), tc(4, 4)}}, 3: {Claim: 1}, 19: {Claim: 1}, 4: {Claim: 4}},
		Adds: [][]tContact{{tc(0, 8)}}, Polls: 1, Expect: []byte{1, 1}})
	add(&tScenario{Name: "data-filter", K: 2, Alpha: 2, Peers: map[int]tPeer{
		8: {Claim: 8, Data: "t8", Nodes: []tContact{tc(1, 1), tc(2, 2), tc(3, 3)}},
		1: {Claim: 1, Data: "bad"}, 2: {Claim: 2, Data: "t2"}, 3: {Claim: 3, Data: "t3"}},
		Adds: [][]tContact{{tc(0, 8)}}, RejectData: map[string]bool{"bad": true}, Polls: 1, Expect: []byte{2, 3}})
	add(&tScenario{Name: "node-filter", K: 2, Alpha: 2, Peers: map[int]tPeer{
		8: {Claim: 8, Nodes: []tContact{tc(2, 2), tc(3, 3), tc(4, 4), tc(5, 5)}},
		2: {Claim: 2}, 3: {Claim: 1}, 4: {Claim: 4}, 5: {Claim: 5}, 6: {Claim: 1}},
		Adds: [][]tContact{{tc(0, 8), tc(0, 2), tc(0, 6)}}, RejectAddr: map[int]bool{2: true}, RejectID: map[byte]bool{1: true}, Polls: 1, Expect: []byte{4, 5}})
	// runs of adjacent filtered addresses in a seed batch and in a reply
	add(&tScenario{Name: "filter-runs", K: 2, Alpha: 2, Peers: map[int]tPeer{
		8: {Claim: 8, Nodes: []tContact{tc(4, 13), tc(5, 14), tc(6, 15), tc(2, 2)}}, 3: {Claim: 3}, 2: {Claim: 2},
		11: {Claim: 1}, 12: {Claim: 1}, 13: {Claim: 1}, 14: {Claim: 1}, 15: {Claim: 1}},
		Adds: [][]tContact{{tc(0, 8), tc(5, 11), tc(6, 12), tc(0, 3)}}, RejectAddr: map[int]bool{11: true, 12: true, 13: true, 14: true, 15: true}, Polls: 1, Expect: []byte{2, 3}})
	// two replies whose node lists are added at the same time, one of them starting with a filtered address
	add(&tScenario{Name: "filter-overlap", Fine: true, MinPB: 2, K: 3, Alpha: 2, Peers: map[int]tPeer{
		8: {Claim: 8, Nodes: []tContact{tc(2, 2)}}, 3: {Claim: 3, Nodes: []tContact{tc(4, 13), tc(5, 5)}},
		2: {Claim: 2}, 5: {Claim: 5}, 13: {Claim: 1}},
		Adds: [][]tContact{{tc(0, 8), tc(0, 3)}}, RejectAddr: map[int]bool{13: true}, Polls: 1, Expect: []byte{2, 3, 5}})
	add(&tScenario{Name: "mapped-cycle", Mapped: true, K: 3, Alpha: 2, Peers: map[int]tPeer{
		1: {Claim: 1, Nodes: []tContact{tc(2, 2), tc(3, 3)}}, 2: {Claim: 2, Nodes: []tContact{tc(1, 1), tc(3, 3)}}, 3: {Claim: 3, Nodes: []tContact{tc(1, 1), tc(2, 2)}}},
		Adds: [][]tContact{{tc(1, 1)}}, Polls: 1, Expect: []byte{1, 2, 3}})
	// a farther candidate (6) is left over when the set is full; then a closer contact arrives late
	add(&tScenario{Name: "late-add", K: 1, Alpha: 1, Peers: map[int]tPeer{
		9: {Claim: 9, Nodes: []tContact{tc(4, 4), tc(6, 6)}}, 4: {Claim: 4}, 2: {Claim: 2}, 6: {Claim: 6}},
		Adds: [][]tContact{{tc(0, 9)}, {tc(2, 2), tc(7, 7)}}, Polls: 2})
	// the single-contact API AddNode, with a filtered and an acceptable address
	add(&tScenario{Name: "add-node-api", K: 2, Alpha: 2, Peers: map[int]tPeer{
		9: {Claim: 9, Nodes: []tContact{tc(4, 4)}}, 4: {Claim: 4}, 2: {Claim: 2}, 3: {Claim: 3}},
		Adds: [][]tContact{{tc(0, 9)}}, AddOne: []tContact{tc(2, 2), tc(3, 3)}, RejectAddr: map[int]bool{2: true}, Polls: 1})
	add(&tScenario{Name: "multi-id", K: 2, Alpha: 2, Peers: map[int]tPeer{
		8: {Claim: 8, Nodes: []tContact{tc(1, 9), tc(2, 9), tc(3, 9)}}, 9: {Claim: 1}},
		Adds: [][]tContact{{tc(0, 8)}}, Polls: 1})
	add(&tScenario{Name: "repeat", K: 2, Alpha: 2, Peers: map[int]tPeer{
		8: {Claim: 8, Nodes: []tContact{tc(4, 9), tc(6, 7)}}, 9: {Claim: 4, Nodes: []tContact{tc(4, 9), tc(5, 9)}}, 7: {Claim: 6, Nodes: []tContact{tc(5, 9), tc(7, 8)}}},
		Adds: [][]tContact{{tc(0, 8), tc(0, 9), tc(5, 9)}}, Polls: 1})
	// an address first reported without an ID (or under a far one) and reported again, under a near
	// ID, while the first report still waits unqueried; the result set fills before either is reached
	add(&tScenario{Name: "rereport-noid", K: 2, Alpha: 1, Peers: map[int]tPeer{
		3: {Claim: 3, Nodes: []tContact{tc(2, 2)}}, 2: {Claim: 2, Nodes: []tContact{tc(1, 5)}}, 5: {Claim: 1}},
		Adds: [][]tContact{{tc(3, 3), tc(0, 5)}}, Polls: 1, Expect: []byte{1, 2}})
	add(&tScenario{Name: "rereport-far", K: 2, Alpha: 1, Peers: map[int]tPeer{
		4: {Claim: 4, Nodes: []tContact{tc(2, 2), tc(3, 3)}}, 3: {Claim: 3}, 2: {Claim: 2, Nodes: []tContact{tc(1, 5)}}, 5: {Claim: 1}},
		Adds: [][]tContact{{tc(4, 4), tc(9, 5)}}, Polls: 1, Expect: []byte{1, 2}})
	add(&tScenario{Name: "silent-stop", K: 2, Alpha: 2, Peers: map[int]tPeer{
		8: {Claim: 8, Nodes: []tContact{tc(1, 1), tc(2, 2), tc(3, 3)}}, 2: {Claim: 2}, 3: {Claim: 3, Nodes: []tContact{tc(1, 1)}}},
		Adds: [][]tContact{{tc(0, 8)}}, Stop: true, Polls: 1})
	add(&tScenario{Name: "wide", K: 3, Alpha: 3, Peers: map[int]tPeer{
		8: {Claim: 8, Nodes: []tContact{tc(5, 5), tc(6, 6), tc(7, 7)}},
		5: {Claim: 5, Nodes: []tContact{tc(1, 1), tc(2, 2)}}, 6: {Claim: 6, Nodes: []tContact{tc(2, 2), tc(3, 3)}}, 7: {Claim: 7, Nodes: []tContact{tc(1, 1), tc(3, 3)}},
		1: {Claim: 1}, 2: {Claim: 2}, 3: {Claim: 3}},
		Adds: [][]tContact{{tc(0, 8)}}, Polls: 1, Expect: []byte{1, 2, 3}})
	return out
}

// coarse tier: every response graph on peers p1..p3 (ID = address = 1..3) plus an ID-less seed at
// address 8, with at most one untruthful peer, explored over all completion orders (env mode).
//
// name: g<12 bits hex>-b<peer><behaviour>-k<K>a<A>-s<seedset>
func coarseScenario(name string) *tScenario {
	var g, bp, k, a, ss int
	var bb byte
	if _, err := fmt.Sscanf(name, "g%03x-b%d%c-k%da%d-s%d", &g, &bp, &bb, &k, &a, &ss); err != nil {
		return nil
	}
	s := &tScenario{Name: name, K: k, Alpha: a, Peers: map[int]tPeer{}}
	repliers := []int{8, 1, 2, 3}
	for i, r := range repliers {
		var nodes []tContact
		for j := 0; j < 3; j++ {
			if g>>(uint(i*3+j))&1 == 1 {
				nodes = append(nodes, tc(byte(j+1), j+1))
			}
		}
		claim := byte(r)
		p := tPeer{Claim: claim, Nodes: nodes, Data: fmt.Sprintf("t%d", r)}
		if r == bp {
			switch bb {
			case 's':
				p = tPeer{}
			case 'l':
				p.Claim = 7
			}
		}
		s.Peers[r] = p
	}
	seeds := []tContact{tc(0, 8)}
	if ss == 1 {
		seeds = append(seeds, tc(3, 3))
	}
	s.Adds = [][]tContact{seeds}
	return s
}

func coarseNames(thorough bool) (out []string) {
	kas := [][2]int{{2, 2}, {1, 3}, {3, 1}}
	if thorough {
		kas = nil
		for k := 1; k <= 3; k++ {
			for a := 1; a <= 3; a++ {
				kas = append(kas, [2]int{k, a})
			}
		}
	}
	behaviours := []string{"0t", "1s", "2s", "3s", "1l", "2l", "3l", "8s", "8l"}
	for g := 0; g < 4096; g++ {
		for _, b := range behaviours {
			if !thorough && b != "0t" && g%8 != 7 {
				continue
			}
			for _, ka := range kas {
				for ss := 0; ss < 2; ss++ {
					if !thorough && ss == 1 && g%4 != 3 {
						continue
					}
					out = append(out, fmt.Sprintf("g%03x-b%s-k%da%d-s%d", g, b, ka[0], ka[1], ss))
				}
			}
		}
	}
	return
}

func travScenarioByName(name string) *tScenario {
	for _, s := range travScenarios() {
		if s.Name == name {
			return s
		}
	}
	return coarseScenario(name)
}

// kinds of monitor violations that belong to each property
var travKinds = map[string][]string{
	"C02": {"c02-"},
	"C03": {"horizon", "deadlock", "no-stall", "no-stopped", "stall-", "bubble", "sync-misuse"},
	"C04": {"fanout", "requery", "filtered-queried", "ctx-not-cancelled"},
}

func travPick(prop string, viol []string) string {
	for _, v := range viol {
		for _, k := range travKinds[prop] {
			if strings.HasPrefix(v, k) {
				return v
			}
		}
	}
	return ""
}

func parseTravUnit(unit string) (scn string, env bool) {
	for _, kv := range strings.Split(unit, ";") {
		if strings.HasPrefix(kv, "scn=") {
			scn = kv[4:]
		}
		if kv == "mode=env" {
			env = true
		}
	}
	return
}

var travStates = map[uint64]struct{}{}

func travRun(t *testing.T, prop string, scn *tScenario, env bool, prefix []int) explore.Exec {
	x, out, states := runTraversal(t, scn, prefix, env)
	for k := range states {
		travStates[k^fnvStr(scn.Name)] = struct{}{}
	}
	x.Res.Steps = len(x.Points)
	x.Res.Outcome = fmt.Sprintf("closest=%s queries=%d maxinflight=%d stalls=%d", out.closest, out.queries, out.maxInfl, out.stalls)
	if v := travPick(prop, out.viol); v != "" {
		x.Res.Viol = v + " [schedule: " + scheduleBrief(x.Points) + "]"
	}
	return x
}

func scheduleBrief(pts []explore.SchedPoint) string {
	var s []string
	for i, p := range pts {
		if i >= 60 {
			s = append(s, "...")
			break
		}
		n := strings.ReplaceAll(p.Alts[p.Chosen].Name, "traversal.(*Operation).", "op.")
		if j := strings.Index(n, "@"); j > 0 {
			if k := strings.Index(n[j:], "("); k > 0 {
				n = n[:j+k]
			}
		}
		s = append(s, n)
	}
	return strings.Join(s, " ")
}

func travExplore(t *testing.T, prop string) {
	w := explore.NewWorker(prop)
	defer w.Finish()
	w.SetRule("stateless DFS over scheduler choices of the real traversal.Operation (sync, anacrolix/sync and chansync imports rewritten to scheduler shims by a build-time overlay; Points before every mutex Lock, BroadcastCond.Signaled/Broadcast, SetOnce.Set, at the return of every DoQuery and at harness API calls AddNodes/Stop; mutex ownership modelled) with iterative preemption bounding plus a bounded number of freely placed stall polls; fine tier: designed scenarios (chain, fill race, duplicate IDs, data filter, node filter, late AddNodes, one address under several IDs, repeated addresses, silent peers with Stop); coarse tier: every response graph on 3 peers + seed with at most one silent or lying peer, all completion orders of the in-flight queries")
	// fine tier A: state-pruned DFS at Point granularity, one unit per scenario. quick: at most 1
	// preemption (non-preemptive switches and stall polls are free); thorough: 2 preemptions, then
	// tier A2 below removes the bound.
	idx := 0
	scns := travScenarios()
	pb := 1
	if w.Thorough() {
		pb = 2
	}
	w.Bound("pruned_preemption_bound", pb)
	fineDeadline := w.Remaining() * 6 / 10
	fineStart := time.Now()
	for _, scn := range scns {
		scn := scn
		i := idx
		idx++
		if !w.Mine(i) {
			continue
		}
		if w.OutOfTime() {
			w.Cap(fmt.Sprintf("time budget hit before scenario %s (pruned)", scn.Name))
			continue
		}
		spb := pb
		if scn.MinPB > spb {
			spb = scn.MinPB
		}
		unit := fmt.Sprintf("scn=%s;mode=sync;b=%d;pruned", scn.Name, spb)
		w.BeginUnit(i, unit)
		d := &explore.DFS{W: w, Unit: unit, Preempt: spb, Observe: scn.Polls, DetCheck: 2, Prune: true,
			Run: func(prefix []int) explore.Exec { return travRun(t, prop, scn, false, prefix) }}
		d.Explore()
		w.Note(fmt.Sprintf("%s: %d executions, %d distinct states expanded, %d prunings, max %d scheduling points", unit, d.Executions, d.States, d.Pruned, d.MaxPoints))
		w.Flush(false)
	}
	// fine tier A2 (thorough): no preemption bound at all; every shard works on the same scenario
	// (first-level subtrees are dealt out, each shard prunes with its own visited set) inside a time
	// slice per scenario, so that the large scenarios get all cores
	if w.Thorough() {
		slice := w.Remaining() * 5 / 10 / time.Duration(len(scns))
		for _, scn := range scns {
			scn := scn
			i := idx
			idx++
			if i < w.SkipTo() {
				continue
			}
			if w.OutOfTime() {
				w.Cap(fmt.Sprintf("time budget hit before scenario %s (pruned, unbounded)", scn.Name))
				continue
			}
			unit := fmt.Sprintf("scn=%s;mode=sync;b=inf;pruned", scn.Name)
			w.BeginUnit(i, unit)
			d := &explore.DFS{W: w, Unit: unit, Preempt: -1, Observe: scn.Polls, DetCheck: 0, Prune: true, ShardTop: true,
				Deadline: time.Now().Add(slice),
				Run:      func(prefix []int) explore.Exec { return travRun(t, prop, scn, false, prefix) }}
			d.Explore()
			done := "complete"
			if d.TimedOut {
				done = "NOT complete within its time slice"
			}
			w.Note(fmt.Sprintf("%s: shard %d: %d executions, %d states expanded, %d prunings: %s", unit, w.ShardI, d.Executions, d.States, d.Pruned, done))
			w.Flush(false)
		}
	}
	// fine tier B: no pruning (no reliance on the state key), iterative preemption bounding on the
	// two smallest scenarios, sharded by first-level subtree
	bounds := []int{0, 1}
	if w.Thorough() {
		bounds = []int{0, 1, 2}
	}
	w.Bound("unpruned_preemption_bounds", bounds)
	for _, b := range bounds {
		for _, scn := range scns {
			scn := scn
			if !scn.Small {
				continue
			}
			i := idx
			idx++
			if i < w.SkipTo() {
				continue
			}
			if w.OutOfTime() || time.Since(fineStart) > fineDeadline {
				w.Cap(fmt.Sprintf("time budget hit before scenario %s bound %d (unpruned)", scn.Name, b))
				continue
			}
			unit := fmt.Sprintf("scn=%s;mode=sync;b=%d", scn.Name, b)
			w.BeginUnit(i, unit)
			d := &explore.DFS{W: w, Unit: unit, Preempt: b, Observe: scn.Polls, DetCheck: 1, ShardTop: true,
				Run: func(prefix []int) explore.Exec { return travRun(t, prop, scn, false, prefix) }}
			d.Explore()
			w.Note(fmt.Sprintf("%s: %d executions on shard %d, max %d scheduling points", unit, d.Executions, w.ShardI, d.MaxPoints))
			w.Flush(false)
		}
	}
	// coarse tier
	names := coarseNames(w.Thorough())
	w.Bound("coarse_scenarios", len(names))
	for _, n := range names {
		i := idx
		idx++
		if !w.Mine(i) {
			continue
		}
		if w.OutOfTime() {
			w.Cap("time budget hit in the coarse tier (response graphs x completion orders)")
			break
		}
		scn := coarseScenario(n)
		unit := "scn=" + n + ";mode=env"
		w.BeginUnit(i, unit)
		d := &explore.DFS{W: w, Unit: unit, Preempt: -1, Observe: 0, DetCheck: 0,
			Run: func(prefix []int) explore.Exec { return travRun(t, prop, scn, true, prefix) }}
		if i%97 == 0 {
			d.DetCheck = 1
		}
		d.Explore()
	}
	w.AddStates(len(travStates))
}

func travReplay(t *testing.T, c explore.Case) explore.Result {
	name, env := parseTravUnit(c.Unit)
	scn := travScenarioByName(name)
	if scn == nil {
		return explore.Result{Viol: "HARNESS: unknown scenario " + name}
	}
	ch, err := explore.HToChoices(c.H)
	if err != nil {
		return explore.Result{Viol: "HARNESS: bad choices"}
	}
	x := travRun(t, c.Prop, scn, env, ch)
	if x.Err != "" {
		return explore.Result{Viol: "HARNESS: " + x.Err}
	}
	return x.Res
}

func init() {
	for _, p := range []string{"C02", "C03", "C04"} {
		p := p
		runners[p] = func(t *testing.T, c explore.Case) explore.Result { return travReplay(t, c) }
	}
	_ = sort.Strings
	_ = strconv.Itoa
}

func TestC02(t *testing.T) { travExplore(t, "C02") }
func TestC03(t *testing.T) { travExplore(t, "C03") }
func TestC04(t *testing.T) { travExplore(t, "C04") }

func fnvStr(s string) uint64 {
	h := uint64(14695981039346656037)
	for i := 0; i < len(s); i++ {
		h ^= uint64(s[i])
		h *= 1099511628211
	}
	return h
}
