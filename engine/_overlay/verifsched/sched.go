// Package verifsched is the runtime of the schedule explorer E2 of /verif. It is NOT part of
// anacrolix/dht: it is injected at build time as a virtual package through `go test -overlay`,
// together with import-rewritten copies of the packages under exploration whose sync, anacrolix/sync
// and chansync imports point to shims that call Point before every synchronisation operation.
//
// Model: a goroutine that reaches a Point becomes a *thread*; it parks on its own gate channel
// (durably blocked inside the synctest bubble) until the explorer releases it. Exactly one thread is
// released at a time; the explorer regains control when synctest.Wait returns, i.e. when every
// goroutine of the bubble is parked at a Point, finished, or blocked in a native channel operation.
// Mutex ownership is modelled (a lock Point is enabled only while the mutex is free), so nobody ever
// blocks natively on a mutex.
package verifsched

import (
	"fmt"

	"verif/goidasm"

	"runtime"
	"sort"
	"strconv"
	"strings"
	"sync"
	"sync/atomic"
)

// LockState is embedded in the shim mutex; it is read and written only under Sched.mu.
type LockState struct {
	Held    bool
	Owner   *Thread
	Readers int
	// WriterWaiting: writers that have called Lock while readers held the lock. As with Go's
	// sync.RWMutex, new readers are not admitted while a writer waits (this is what makes recursive
	// read locking a deadlock).
	WriterWaiting int
}

type Thread struct {
	Name     string
	gid      uint64
	gate     chan struct{}
	Kind     string // kind of the Point it is parked at
	Lock     *LockState
	Read     bool // read-lock request
	Site     string
	Parked   bool
	Observer bool
	Steps    int
	raceHits map[uintptr]int // per call site: how often this thread parked at a race-directed point
	desc     string
	entry    string
	parent   uint64
}

type Sched struct {
	mu      sync.Mutex
	threads map[uint64]*Thread
	byName  map[string]*Thread
	tags    map[uint64]string
	observe map[uint64]bool
	// Ambiguous is set when two live threads had the same identity (choice order then depends on
	// arrival order, which the runtime owns).
	Ambiguous  []string
	Violations []string
	spawned    map[string]int
	parents    map[uint64]uint64
	unnamed    []*Thread
	rootG      uint64 // the explorer's own goroutine
	// Fine: releasing a lock is a scheduling point too (the thread parks right after Unlock /
	// RUnlock), so that accesses a thread makes after leaving a critical section can be ordered
	// after another thread's critical section. Off by default: it doubles the points per lock.
	Fine bool
}

// parentOf is called with s.mu held by the goroutine g itself.
func (s *Sched) parentOf(g uint64) uint64 {
	if p, ok := s.parents[g]; ok {
		return p
	}
	p := parentGoid()
	s.parents[g] = p
	return p
}

var cur atomic.Pointer[Sched]

var epoch atomic.Uint64

// NewEpoch marks the start of a new execution (bubble); Epoch is read by shims that must not carry
// objects from one execution into the next.
func NewEpoch()     { epoch.Add(1) }
func Epoch() uint64 { return epoch.Load() }

// Install makes s the active scheduler (nil = pass-through: shims use native primitives).
func Install(s *Sched) { cur.Store(s) }
func Current() *Sched  { return cur.Load() }

// New creates a scheduler owned by the calling goroutine (the explorer): that goroutine is never
// parked. Whatever it calls while the threads are quiescent - observation hooks that take the server
// lock, container code that carries race-directed points - runs straight through.
func New() *Sched {
	return &Sched{rootG: goidasm.ID(), threads: map[uint64]*Thread{}, byName: map[string]*Thread{}, tags: map[uint64]string{}, observe: map[uint64]bool{}, spawned: map[string]int{}, parents: map[uint64]uint64{}}
}

// entryFunc names the function the current goroutine was started with.
func entryFunc() string {
	var pcs [96]uintptr
	n := runtime.Callers(2, pcs[:])
	frames := runtime.CallersFrames(pcs[:n])
	last := "?"
	for {
		f, more := frames.Next()
		if f.Function != "" && !strings.HasPrefix(f.Function, "runtime.") {
			last = f.Function
		}
		if !more {
			break
		}
	}
	if i := strings.LastIndex(last, "/"); i >= 0 {
		last = last[i+1:]
	}
	return last
}

var (
	siteMu    sync.Mutex
	siteCache = map[[4]uintptr]string{}
)

func callSite(skip int) string {
	var pcs [4]uintptr
	n := runtime.Callers(skip, pcs[:])
	siteMu.Lock()
	s, ok := siteCache[pcs]
	siteMu.Unlock()
	if ok {
		return s
	}
	s = "?"
	frames := runtime.CallersFrames(pcs[:n])
	for {
		f, more := frames.Next()
		if !strings.Contains(f.Function, "verifshim") && !strings.Contains(f.Function, "verifsched") {
			fn := f.Function
			if i := strings.LastIndex(fn, "/"); i >= 0 {
				fn = fn[i+1:]
			}
			s = fn + ":" + strconv.Itoa(f.Line)
			break
		}
		if !more {
			break
		}
	}
	siteMu.Lock()
	siteCache[pcs] = s
	siteMu.Unlock()
	return s
}

// Tag names the current goroutine before its first Point (harness threads, query goroutines).
func Tag(name string) {
	s := cur.Load()
	if s == nil {
		return
	}
	g := goidasm.ID()
	s.mu.Lock()
	if t := s.threads[g]; t != nil {
		if t.Name != name {
			if t.Name != "" {
				delete(s.byName, t.Name)
			}
			t.Name = s.uniqueName(name)
			s.byName[t.Name] = t
		}
	} else {
		s.tags[g] = name
	}
	s.mu.Unlock()
}

// TagObserver marks the current goroutine as an observer thread: scheduling it does not count as
// a preemption and does not change which thread is considered running.
func TagObserver(name string) {
	s := cur.Load()
	if s == nil {
		return
	}
	g := goidasm.ID()
	s.mu.Lock()
	s.tags[g] = name
	s.observe[g] = true
	s.mu.Unlock()
}

func (s *Sched) uniqueName(name string) string {
	if _, dup := s.byName[name]; !dup {
		return name
	}
	s.Ambiguous = append(s.Ambiguous, name)
	for i := 2; ; i++ {
		n := fmt.Sprintf("%s#%d", name, i)
		if _, dup := s.byName[n]; !dup {
			return n
		}
	}
}

// parentGoid parses "created by ... in goroutine N" from the current goroutine's stack trace.
func parentGoid() uint64 {
	buf := make([]byte, 1<<14)
	n := runtime.Stack(buf, false)
	st := string(buf[:n])
	i := strings.LastIndex(st, " in goroutine ")
	if i < 0 {
		return 0
	}
	st = st[i+len(" in goroutine "):]
	j := 0
	for j < len(st) && st[j] >= '0' && st[j] <= '9' {
		j++
	}
	id, _ := strconv.ParseUint(st[:j], 10, 64)
	return id
}

func (s *Sched) thread(g uint64) *Thread {
	t := s.threads[g]
	if t == nil {
		t = &Thread{gid: g, gate: make(chan struct{}), Observer: s.observe[g]}
		if name, ok := s.tags[g]; ok {
			t.Name = s.uniqueName(name)
			s.byName[t.Name] = t
		} else {
			// Untagged goroutines are named after their entry function, qualified by the thread that
			// spawned them and the ordinal of that spawn. The name is assigned by the explorer at the
			// next quiescent state (nameNew), in goroutine-id order: with GOMAXPROCS=1 ids are handed
			// out in spawn order, so siblings spawned in one step get the same names in every run.
			t.entry = entryFunc()
			t.parent = s.parentOf(g)
			s.unnamed = append(s.unnamed, t)
		}
		s.threads[g] = t
	}
	return t
}

// nameNew names the threads that appeared since the last quiescent state (called under s.mu).
func (s *Sched) nameNew() {
	if len(s.unnamed) == 0 {
		return
	}
	sort.Slice(s.unnamed, func(i, j int) bool { return s.unnamed[i].gid < s.unnamed[j].gid })
	for _, t := range s.unnamed {
		if t.Name != "" {
			continue // tagged in the meantime
		}
		name := t.entry
		if pt := s.threads[t.parent]; pt != nil && pt.Name != "" {
			k := s.spawned[pt.Name+"|"+name]
			s.spawned[pt.Name+"|"+name] = k + 1
			name = fmt.Sprintf("%s<%s/%d>", name, pt.Name, k)
		}
		t.Name = s.uniqueName(name)
		s.byName[t.Name] = t
		if t.Parked {
			t.desc = t.Name + "@" + t.Kind + "(" + t.Site + ")"
		}
	}
	s.unnamed = s.unnamed[:0]
}

func (s *Sched) park(kind string, ls *LockState, read bool) {
	g := goidasm.ID()
	site := callSite(2)
	s.mu.Lock()
	t := s.thread(g)
	t.Kind, t.Lock, t.Read, t.Site, t.Parked = kind, ls, read, site, true
	t.desc = t.Name + "@" + kind + "(" + site + ")"
	s.mu.Unlock()
	<-t.gate
}

// RaceHitCap bounds how often one thread parks at one race-directed point (rewrite -racepoints) per
// execution: such points can sit in loops that run hundreds of times per call; later hits pass
// through, so executions stay short and the interleavings around the first hits are all explored.
const RaceHitCap = 4

// Point parks the calling goroutine until the explorer schedules it.
func Point(kind string) {
	s := cur.Load()
	if s == nil || goidasm.ID() == s.rootG {
		return
	}
	if kind == "race" {
		var pc [1]uintptr
		runtime.Callers(2, pc[:])
		g := goidasm.ID()
		s.mu.Lock()
		t := s.thread(g)
		if t.raceHits == nil {
			t.raceHits = map[uintptr]int{}
		}
		t.raceHits[pc[0]]++
		// observer threads are harness pollers that read library state under the harness' own lock:
		// parking them inside the library would wedge the explorer on that lock
		over := t.raceHits[pc[0]] > RaceHitCap || t.Observer
		s.mu.Unlock()
		if over {
			return
		}
	}
	s.park(kind, nil, false)
}

// Lock is a Point that is enabled while no writer holds ls. If readers hold it when the thread is
// scheduled, the thread registers as a waiting writer (blocking new readers) and parks again until
// the readers are gone; otherwise the scheduler marks the lock held on release.
func Lock(ls *LockState) {
	s := cur.Load()
	if s == nil {
		panic("verifsched.Lock without scheduler")
	}
	if goidasm.ID() == s.rootG {
		return // the explorer reads shared state while every thread is parked
	}
	s.park("lock", ls, false)
	s.mu.Lock()
	t := s.threads[goidasm.ID()]
	if ls.Owner == t && ls.Held {
		s.mu.Unlock()
		return
	}
	ls.WriterWaiting++
	s.mu.Unlock()
	s.park("lock-wait", ls, false)
	s.mu.Lock()
	ls.WriterWaiting--
	s.mu.Unlock()
}

func RLock(ls *LockState) {
	s := cur.Load()
	if s == nil {
		panic("verifsched.RLock without scheduler")
	}
	if goidasm.ID() == s.rootG {
		return
	}
	s.park("rlock", ls, true)
}

func Unlock(ls *LockState) {
	s := cur.Load()
	if goidasm.ID() == s.rootG {
		return
	}
	s.mu.Lock()
	if !ls.Held {
		s.Violations = append(s.Violations, "unlock of an unlocked mutex at "+callSite(2))
	}
	ls.Held, ls.Owner = false, nil
	fine := s.Fine
	s.mu.Unlock()
	if fine {
		s.park("unlocked", nil, false)
	}
}

func RUnlock(ls *LockState) {
	s := cur.Load()
	if goidasm.ID() == s.rootG {
		return
	}
	s.mu.Lock()
	ls.Readers--
	fine := s.Fine
	s.mu.Unlock()
	if fine {
		s.park("runlocked", nil, false)
	}
}

// ---- explorer side (called from the bubble's root goroutine after synctest.Wait) ----------------

type Enabled struct {
	T *Thread
}

func enabledLocked(t *Thread) bool {
	if !t.Parked {
		return false
	}
	if t.Lock != nil {
		switch {
		case t.Read:
			return !t.Lock.Held && t.Lock.WriterWaiting == 0
		case t.Kind == "lock-wait":
			return !t.Lock.Held && t.Lock.Readers == 0
		default: // "lock": may be requested whenever no writer holds it
			return !t.Lock.Held
		}
	}
	return true
}

// Snapshot returns parked threads sorted by name, with their enabledness.
func (s *Sched) Snapshot() (enabled, blocked []*Thread) {
	s.mu.Lock()
	defer s.mu.Unlock()
	s.nameNew()
	for _, t := range s.threads {
		if !t.Parked {
			continue
		}
		if enabledLocked(t) {
			enabled = append(enabled, t)
		} else {
			blocked = append(blocked, t)
		}
	}
	sort.Slice(enabled, func(i, j int) bool { return enabled[i].Name < enabled[j].Name })
	sort.Slice(blocked, func(i, j int) bool { return blocked[i].Name < blocked[j].Name })
	return
}

// All returns every thread that ever reached a Point (parked or not).
func (s *Sched) All() (out []*Thread) {
	s.mu.Lock()
	defer s.mu.Unlock()
	s.nameNew()
	for _, t := range s.threads {
		out = append(out, t)
	}
	return
}

// Release lets t take its step. The caller must then synctest.Wait().
func (s *Sched) Release(t *Thread) {
	s.mu.Lock()
	if !enabledLocked(t) {
		s.mu.Unlock()
		panic("verifsched: release of a thread that is not enabled: " + t.Name)
	}
	if t.Lock != nil {
		switch {
		case t.Read:
			t.Lock.Readers++
		case t.Lock.Readers == 0:
			t.Lock.Held, t.Lock.Owner = true, t
		}
	}
	t.Parked = false
	t.Steps++
	s.mu.Unlock()
	t.gate <- struct{}{}
}

// Describe is a one-line description of a parked thread's pending operation.
func (t *Thread) Describe() string {
	return t.desc
}
