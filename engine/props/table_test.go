package props

import (
	"context"
	"encoding/binary"
	"fmt"
	"net"
	"sort"
	"strings"
	"testing"
	"testing/synctest"
	"time"

	"github.com/anacrolix/dht/v2"
	"github.com/anacrolix/dht/v2/int160"
	"github.com/anacrolix/dht/v2/krpc"
	"github.com/anacrolix/dht/v2/transactions"
	"github.com/anacrolix/torrent/iplist"

	"verif/explore"
	"verif/sim"
)

// ---- shared routing-table explorer (C05 invariants, C06 transition rules) -----------------------

type peer struct {
	Name string
	Addr *net.UDPAddr
	ID   sim.ID
}

// Blocklist is the harness' own iplist.Ranger: coverage is defined here, not by library code.
type Blocklist []*net.IPNet

func (b Blocklist) Lookup(ip net.IP) (iplist.Range, bool) {
	for _, n := range b {
		if n.Contains(ip) {
			return iplist.Range{Description: n.String()}, true
		}
	}
	return iplist.Range{}, false
}
func (b Blocklist) NumRanges() int { return len(b) }

func cidr(s string) *net.IPNet {
	_, n, err := net.ParseCIDR(s)
	if err != nil {
		panic(err)
	}
	return n
}

const tblResend = time.Millisecond

type tblCfg struct {
	Name     string
	Security bool
	Block    Blocklist
}

var tblCfgs = map[string]tblCfg{
	"plain":  {Name: "plain"},
	"sec":    {Name: "sec", Security: true},
	"block":  {Name: "block", Block: Blocklist{cidr("66.0.0.0/8")}},
	"secblk": {Name: "secblk", Security: true, Block: Blocklist{cidr("66.0.0.0/8")}},
}

// tblPeers builds the peer universe for a configuration. Without security IDs are chosen freely
// per bucket; with security each peer's ID is the BEP 42 ID of its (public) IP, and peers are
// searched so that enough of them fall into bucket 0 of the root.
func tblPeers(sec bool) map[string]peer {
	ps := map[string]peer{}
	add := func(name string, addr *net.UDPAddr, id sim.ID) { ps[name] = peer{name, addr, id} }
	if !sec {
		for i := 1; i <= 8; i++ {
			add(fmt.Sprintf("e%d", i), sim.UDP4(1, 0, 0, byte(i), 1000+i), sim.InBucket(sim.Root, 0, i))
		}
		add("n1", sim.UDP4(1, 0, 1, 1, 2001), sim.InBucket(sim.Root, 0, 101))
		add("n2", sim.UDP4(1, 0, 1, 2, 2002), sim.InBucket(sim.Root, 0, 102))
		// n1 again, its IPv4 address in 16-byte (IPv4-mapped) form: the same contact to the table
		add("n1m", &net.UDPAddr{IP: net.IP{1, 0, 1, 1}.To16(), Port: 2001}, sim.InBucket(sim.Root, 0, 101))
		add("c1", sim.UDP4(1, 0, 2, 1, 3001), sim.InBucket(sim.Root, 1, 1))
		add("z9", sim.UDP4(1, 0, 3, 1, 3002), sim.InBucket(sim.Root, 159, 0))
	} else {
		// public IPs whose secure ID lands in bucket 0 (first bit differs from root 0x80)
		n := 0
		names := []string{"e1", "e2", "e3", "e4", "e5", "e6", "e7", "e8", "n1", "n2"}
		for x := 1; n < len(names) && x < 250; x++ {
			ip := net.IP{21, 7, byte(x), 9}
			var id krpc.ID
			id[19] = byte(x)
			id[10] = byte(x)
			dht.SecureNodeId(&id, ip)
			if id[0]&0x80 != 0 {
				continue
			}
			add(names[n], &net.UDPAddr{IP: ip, Port: 1000 + x}, id)
			n++
		}
		// c1: secure, in some other bucket (first bit equal to root)
		for x := 1; x < 250; x++ {
			ip := net.IP{22, 8, byte(x), 9}
			var id krpc.ID
			id[19] = byte(x)
			dht.SecureNodeId(&id, ip)
			if id[0]&0x80 != 0 {
				add("c1", &net.UDPAddr{IP: ip, Port: 3000 + x}, id)
				break
			}
		}
		// i1, i2: public IP, ID not valid for it (bucket 0)
		add("i1", sim.UDP4(23, 1, 1, 1, 4001), sim.InBucket(sim.Root, 0, 201))
		add("i2", sim.UDP4(23, 1, 1, 2, 4002), sim.InBucket(sim.Root, 0, 202))
		// l1: private IP, arbitrary ID (exempt from BEP 42)
		add("l1", sim.UDP4(10, 1, 1, 1, 4003), sim.InBucket(sim.Root, 0, 203))
		// zl: private IP (exempt from BEP 42) claiming the all-zero ID
		add("zl", sim.UDP4(10, 1, 1, 2, 4004), sim.ID{})
	}
	// special identities
	add("self", sim.UDP4(1, 0, 4, 1, 5001), sim.Root)
	add("zero", sim.UDP4(1, 0, 4, 2, 5002), sim.ID{})
	// same ID at two addresses, same address with two IDs
	if !sec {
		add("d1", sim.UDP4(1, 0, 5, 1, 6001), sim.InBucket(sim.Root, 0, 150))
		add("d2", sim.UDP4(1, 0, 5, 2, 6002), sim.InBucket(sim.Root, 0, 150))
		add("a1", sim.UDP4(1, 0, 6, 1, 7001), sim.InBucket(sim.Root, 0, 160))
		add("a2", sim.UDP4(1, 0, 6, 1, 7001), sim.InBucket(sim.Root, 0, 161))
	}
	// blocked source (covered by 66.0.0.0/8 in the block configs)
	add("bx", sim.UDP4(66, 1, 1, 1, 8001), sim.InBucket(sim.Root, 0, 170))
	// an IPv6 peer
	add("v6", &net.UDPAddr{IP: net.ParseIP("2001:db8::1"), Port: 9001}, sim.InBucket(sim.Root, 0, 180))
	return ps
}

var tblStarts = map[string][]string{
	"empty":     {},
	"full8good": {"P:e1:ok", "P:e2:ok", "P:e3:ok", "P:e4:ok", "P:e5:ok", "P:e6:ok", "P:e7:ok", "P:e8:ok"},
	"full8nevr": {"Q:e1", "Q:e2", "Q:e3", "Q:e4", "Q:e5", "Q:e6", "Q:e7", "Q:e8"},
	"mixed": {"P:e1:ok", "P:e2:ok", "P:e3:ok", "P:e4:ok", "Q:e5", "Q:e6", "Q:e7", "Q:e8",
		"F:e5", "F:e6"},
	"old8": {"P:e1:ok", "P:e2:ok", "P:e3:ok", "P:e4:ok", "P:e5:ok", "P:e6:ok", "P:e7:ok", "P:e8:ok", "T16"},
}

type tblSys struct {
	*Sys
	cfg     tblCfg
	peers   map[string]peer
	byKey   map[string]string // addr|idhex -> peer name
	tletter time.Duration     // virtual time spent in T letters
	// refFailed: the reference's own view of "failed its last questionable-node ping" per
	// addr|idhex (set by an unanswered maintenance ping, cleared by any matched response)
	refFailed map[string]bool
	// useImplFailed: maintenance-driven histories, where pings fail and succeed outside the letters,
	// read the flag from the snapshot instead
	useImplFailed bool
	// useRefFailed is switched on while the C06 transition oracle runs: C05's agreement between
	// API counts and entries is about the implementation's own view, C06's "bad" is the reference's
	useRefFailed bool
	start        time.Time
	tidSeq       int
}

func newTblSys(cfg tblCfg, extra ...SysOpt) *tblSys {
	opts := []SysOpt{func(c *dht.ServerConfig) {
		c.QueryResendDelay = func() time.Duration { return tblResend }
		if cfg.Security {
			c.NoSecurity = false
		}
		if cfg.Block != nil {
			c.IPBlocklist = cfg.Block
		}
	}}
	opts = append(opts, extra...)
	y := &tblSys{Sys: NewSys(opts...), cfg: cfg, peers: tblPeers(cfg.Security), byKey: map[string]string{}, start: time.Now()}
	for n, p := range y.peers {
		y.byKey[p.Addr.String()+"|"+fmt.Sprintf("%x", p.ID)] = n
	}
	return y
}

func (y *tblSys) blocked(ip net.IP) bool {
	if y.cfg.Block == nil {
		return false
	}
	_, b := y.cfg.Block.Lookup(ip)
	return b
}

// event description for the C06 transition oracle
type tblEvent struct {
	Letter    string
	Sender    *peer  // direct sender that the rules may admit (nil: nobody may be admitted)
	SenderID  sim.ID // the ID the sender used in this message
	Admits    bool   // event class can admit its sender (query / matched response / AddNode)
	Responded bool   // event is a matched response (newcomer counts as "has just answered")
	ReadOnly  bool
	ViaAPI    bool // explicit add API: admission permitted, not demanded
}

// outbound: start Server.Ping / FindNode in a goroutine, wait for the datagram, return its tid.
func (y *tblSys) startQuery(p peer, kind string) (tid string, done chan dht.QueryResult, ok bool) {
	done = make(chan dht.QueryResult, 1)
	before := y.Conn.NumWrites()
	go func() {
		switch kind {
		case "ping":
			done <- y.S.Ping(p.Addr)
		case "find_node":
			done <- y.S.FindNode(dht.NewAddr(p.Addr), sim2int160(sim.InBucket(sim.Root, 3, 1)), dht.QueryRateLimiting{})
		case "qping":
			done <- y.S.VerifQuestionablePing(context.Background(), dht.NewAddr(p.Addr), p.ID)
		}
	}()
	synctest.Wait()
	ws := y.Conn.WritesSince(before)
	for _, w := range DecodeWrites(ws) {
		if w.Y() == "q" && w.To.String() == p.Addr.String() {
			return w.T(), done, true
		}
	}
	return "", done, false
}

func (y *tblSys) inTable(key string) bool {
	for _, n := range y.S.VerifTable().Nodes {
		if n.Addr+"|"+fmt.Sprintf("%x", n.Id) == key {
			return true
		}
	}
	return false
}

func (y *tblSys) settle() {
	// let every pending query time out: resend delay is 1ms, at most 3 tries + final wait
	time.Sleep(10 * tblResend)
	synctest.Wait()
}

func isEPeer(name string) bool { return len(name) == 2 && name[0] == 'e' }

// role of a present entry, by the reference rules
func (y *tblSys) role(s tblSnap, n dht.VerifNode) string {
	switch {
	case n.FailedPing:
		return "fail"
	case y.refGood(s.Now, n):
		return "good"
	case n.LastGotResponse.IsZero():
		return "nevr"
	}
	return "quest"
}

// resolve replaces role placeholders ("@good", "@nevr", "@fail", "@quest", "@absent") by the
// interchangeable e-peer that currently plays that role: the one with the smallest attribute
// tuple, ties by name, so that isomorphic states pick isomorphic peers. ok=false: no such peer.
func (y *tblSys) resolve(letter string, s tblSnap) (string, bool) {
	if !strings.Contains(letter, "@") {
		return letter, true
	}
	f := strings.Split(letter, ":")
	for i, x := range f {
		at := strings.Index(x, "@")
		if at < 0 {
			continue
		}
		want := x[at+1:]
		best, bestAttr := "", ""
		var names []string
		for n := range y.peers {
			if isEPeer(n) {
				names = append(names, n)
			}
		}
		sort.Strings(names)
		for _, n := range names {
			p := y.peers[n]
			e, present := s.ByKey[p.Addr.String()+"|"+fmt.Sprintf("%x", p.ID)]
			var attr string
			if !present {
				if want != "absent" {
					continue
				}
				attr = "-"
			} else {
				if want == "absent" || y.role(s, e) != want {
					continue
				}
				attr = fmt.Sprintf("%2s/%2s", ageClass(s.Now, e.LastGotQuery), ageClass(s.Now, e.LastGotResponse))
			}
			if best == "" || attr < bestAttr {
				best, bestAttr = n, attr
			}
		}
		if best == "" {
			return letter, false
		}
		f[i] = x[:at] + best
	}
	return strings.Join(f, ":"), true
}

// apply executes one letter and returns the event description.
func (y *tblSys) apply(letter string) (ev tblEvent, err error) {
	ev.Letter = letter
	if y.refFailed == nil {
		y.refFailed = map[string]bool{}
	}
	defer func() {
		if ev.Responded && ev.Sender != nil {
			delete(y.refFailed, ev.Sender.Addr.String()+"|"+fmt.Sprintf("%x", ev.SenderID))
		}
	}()
	f := strings.Split(letter, ":")
	getp := func(i int) (peer, error) {
		if i >= len(f) {
			return peer{}, fmt.Errorf("bad letter %q", letter)
		}
		p, ok := y.peers[f[i]]
		if !ok {
			return peer{}, fmt.Errorf("unknown peer %q in %q", f[i], letter)
		}
		return p, nil
	}
	switch f[0] {
	case "T1":
		time.Sleep(time.Minute)
		y.tletter += time.Minute
		synctest.Wait()
	case "T16":
		time.Sleep(16 * time.Minute)
		y.tletter += 16 * time.Minute
		synctest.Wait()
	case "Q", "Qro": // inbound ping query from p
		p, e := getp(1)
		if e != nil {
			return ev, e
		}
		y.tidSeq++
		m := sim.M{"t": fmt.Sprintf("q%d", y.tidSeq), "y": "q", "q": "ping", "a": sim.M{"id": sim.IDStr(p.ID)}}
		if f[0] == "Qro" {
			m["ro"] = 1
			ev.ReadOnly = true
		}
		y.Deliver(p.Addr, sim.Enc(m))
		ev.Sender, ev.SenderID, ev.Admits = &p, p.ID, true
	case "P", "Pro": // our ping to p, answered (ok / as other peer's ID) or timed out
		p, e := getp(1)
		if e != nil {
			return ev, e
		}
		tid, done, sent := y.startQuery(p, "ping")
		mode := "ok"
		if len(f) > 2 {
			mode = f[2]
		}
		if sent && mode != "to" {
			id := p.ID
			if strings.HasPrefix(mode, "as=") {
				q, ok := y.peers[mode[3:]]
				if !ok {
					return ev, fmt.Errorf("unknown peer in %q", letter)
				}
				id = q.ID
			}
			m := sim.M{"t": tid, "y": "r", "r": sim.M{"id": sim.IDStr(id)}}
			if f[0] == "Pro" {
				m["ro"] = 1
				ev.ReadOnly = true
			}
			y.Deliver(p.Addr, sim.Enc(m))
			ev.Sender, ev.SenderID, ev.Admits, ev.Responded = &p, id, true, true
		}
		y.settle()
		select {
		case <-done:
		default:
			return ev, fmt.Errorf("VIOL-C14-ish: Ping did not return after settle")
		}
	case "A": // AddNode
		p, e := getp(1)
		if e != nil {
			return ev, e
		}
		y.S.AddNode(krpc.NodeInfo{ID: p.ID, Addr: krpc.NodeAddr{IP: p.Addr.IP, Port: p.Addr.Port}})
		synctest.Wait()
		y.settle() // AddNode with a zero ID pings instead
		if p.ID != (sim.ID{}) {
			ev.Sender, ev.SenderID, ev.Admits, ev.ViaAPI = &p, p.ID, true, true
		}
	case "F": // questionable-node ping that goes unanswered / answered
		p, e := getp(1)
		if e != nil {
			return ev, e
		}
		tid, done, sent := y.startQuery(p, "qping")
		if sent && len(f) > 2 && f[2] == "ok" {
			y.Deliver(p.Addr, sim.Reply(tid, sim.M{"id": sim.IDStr(p.ID)}))
			ev.Sender, ev.SenderID, ev.Admits, ev.Responded = &p, p.ID, true, true
		} else if k := p.Addr.String() + "|" + fmt.Sprintf("%x", p.ID); y.inTable(k) {
			y.refFailed[k] = true // only an entry that exists can be flagged
		}
		y.settle()
		select {
		case <-done:
		default:
			return ev, fmt.Errorf("questionable ping did not return")
		}
	case "H": // hearsay: our find_node to p answered listing q (and a few strangers)
		p, e := getp(1)
		if e != nil {
			return ev, e
		}
		q, e := getp(2)
		if e != nil {
			return ev, e
		}
		tid, done, sent := y.startQuery(p, "find_node")
		if sent {
			r := sim.M{"id": sim.IDStr(p.ID)}
			if q.Addr.IP.To4() != nil {
				r["nodes"] = sim.CompactNode(q.ID, q.Addr.IP.To4(), q.Addr.Port)
			} else {
				r["nodes6"] = sim.CompactNode(q.ID, q.Addr.IP.To16(), q.Addr.Port)
			}
			y.Deliver(p.Addr, sim.Reply(tid, r))
			ev.Sender, ev.SenderID, ev.Admits, ev.Responded = &p, p.ID, true, true
		}
		y.settle()
		<-done
	case "Pc": // a query to p with an already cancelled context, then a "response" echoing its transaction id
		p, e := getp(1)
		if e != nil {
			return ev, e
		}
		// the id the query will get: ids come from a process-wide sequential (varint) counter
		last := transactions.DefaultIdIssuer.Issue()
		n, _ := binary.Uvarint([]byte(last))
		var vb [binary.MaxVarintLen64]byte
		pred := string(vb[:binary.PutUvarint(vb[:], n+1)])
		ctx, cancel := context.WithCancel(context.Background())
		cancel()
		before := y.Conn.NumWrites()
		done := make(chan struct{})
		go func() {
			y.S.Query(ctx, dht.NewAddr(p.Addr), "ping", dht.QueryInput{})
			close(done)
		}()
		synctest.Wait()
		for _, w := range DecodeWrites(y.Conn.WritesSince(before)) {
			if w.Y() == "q" {
				pred = w.T()
			}
		}
		y.settle()
		<-done
		y.Deliver(p.Addr, sim.Reply(pred, sim.M{"id": sim.IDStr(p.ID)}))
	case "Pblk": // our ping to p is pending when p's address is blocklisted; then p answers
		p, e := getp(1)
		if e != nil {
			return ev, e
		}
		tid, done, sent := y.startQuery(p, "ping")
		mask := 32
		if p.Addr.IP.To4() == nil {
			mask = 128
		}
		y.cfg.Block = append(append(Blocklist(nil), y.cfg.Block...), &net.IPNet{IP: p.Addr.IP, Mask: net.CIDRMask(mask, mask)})
		y.S.SetIPBlockList(y.cfg.Block)
		if sent {
			y.Deliver(p.Addr, sim.Reply(tid, sim.M{"id": sim.IDStr(p.ID)}))
		}
		y.settle()
		<-done
	case "U": // unsolicited response from p (unknown tid)
		p, e := getp(1)
		if e != nil {
			return ev, e
		}
		y.Deliver(p.Addr, sim.Reply("zzunk", sim.M{"id": sim.IDStr(p.ID)}))
	case "Mm": // response carrying a pending tid but from another port (mp) or another IP (mi)
		p, e := getp(1)
		if e != nil {
			return ev, e
		}
		tid, done, sent := y.startQuery(p, "ping")
		if sent {
			from := &net.UDPAddr{IP: p.Addr.IP, Port: p.Addr.Port + 1}
			if len(f) > 2 && f[2] == "ip" {
				ip := append(net.IP(nil), p.Addr.IP...)
				ip[len(ip)-1] ^= 0x40
				from = &net.UDPAddr{IP: ip, Port: p.Addr.Port}
			}
			y.Deliver(from, sim.Reply(tid, sim.M{"id": sim.IDStr(p.ID)}))
		}
		y.settle()
		<-done
	case "E": // error reply to a pending query
		p, e := getp(1)
		if e != nil {
			return ev, e
		}
		tid, done, sent := y.startQuery(p, "ping")
		if sent {
			y.Deliver(p.Addr, sim.ErrorMsg(tid, 201, "nope"))
		}
		y.settle()
		<-done
	default:
		return ev, fmt.Errorf("unknown letter %q", letter)
	}
	return ev, nil
}

func sim2int160(id sim.ID) int160.T { return krpc.ID(id).Int160() }

// ---- snapshot, key, oracles ---------------------------------------------------------------------

type tblSnap struct {
	Now   time.Time
	T     dht.VerifTableSnapshot
	ByKey map[string]dht.VerifNode // addr|idhex
}

func (y *tblSys) snap() tblSnap {
	s := tblSnap{Now: time.Now(), T: y.S.VerifTable(), ByKey: map[string]dht.VerifNode{}}
	for _, n := range s.T.Nodes {
		s.ByKey[n.Addr+"|"+fmt.Sprintf("%x", n.Id)] = n
	}
	return s
}

func ageClass(now, t time.Time) string {
	if t.IsZero() {
		return "-"
	}
	m := int(now.Sub(t) / time.Minute)
	if m > 15 {
		m = 15
	}
	return fmt.Sprint(m)
}

func (y *tblSys) key(s tblSnap) string {
	var parts []string
	for k, n := range s.ByKey {
		name, ok := y.byKey[k]
		if !ok {
			name = k
		}
		if isEPeer(name) {
			name = "e"
		}
		fl := ""
		if n.FailedPing {
			fl = "F"
		}
		parts = append(parts, fmt.Sprintf("%s@%d q%s r%s%s", name, n.Bucket, ageClass(s.Now, n.LastGotQuery), ageClass(s.Now, n.LastGotResponse), fl))
	}
	sort.Strings(parts)
	return strings.Join(parts, " | ") + fmt.Sprintf(" tx=%d", s.T.Transactions)
}

// anonKey drops all identities: it is what the determinism self-check compares, because the
// eviction victim among equally eligible entries is chosen by Go map iteration order.
func (y *tblSys) anonKey(s tblSnap) string {
	var c [160]int
	for _, n := range s.ByKey {
		c[n.Bucket]++
	}
	var parts []string
	for b, k := range c {
		if k > 0 {
			parts = append(parts, fmt.Sprintf("%d:%d", b, k))
		}
	}
	return strings.Join(parts, "|")
}

// refBad / refGood: reference rules written from the property text (BEP 5 goodness).
func (y *tblSys) refBad(n dht.VerifNode) bool {
	if n.Id == sim.Root || n.Id == (sim.ID{}) {
		return true
	}
	if y.cfg.Security && !refSecure(n.Id, net.IP(n.IP)) {
		return true
	}
	// the reference's own flag, not the implementation's (a change that forgets to clear the
	// implementation's flag must not blind the oracle)
	if y.useRefFailed && !y.useImplFailed {
		return y.refFailed[n.Addr+"|"+fmt.Sprintf("%x", n.Id)]
	}
	return n.FailedPing
}

func (y *tblSys) refGood(now time.Time, n dht.VerifNode) bool {
	if y.refBad(n) {
		return false
	}
	if n.LastGotResponse.IsZero() {
		return false
	}
	if now.Sub(n.LastGotResponse) < 15*time.Minute {
		return true
	}
	return !n.LastGotQuery.IsZero() && now.Sub(n.LastGotQuery) < 15*time.Minute
}

// c05Invariant checks well-formedness and API agreement on one quiescent state.
func (y *tblSys) c05Invariant(s tblSnap) string {
	seen := map[string]bool{}
	lens := map[int]int{}
	for _, n := range s.T.Nodes {
		want := sim.CommonPrefixLen(sim.Root, n.Id)
		if n.Id == sim.Root {
			return fmt.Sprintf("own-id-in-table: %s", n.Addr)
		}
		if n.Id == (sim.ID{}) {
			return fmt.Sprintf("zero-id-in-table: %s", n.Addr)
		}
		if n.Bucket != want {
			return fmt.Sprintf("wrong-bucket: %x at %s sits in bucket %d, shared prefix is %d", n.Id, n.Addr, n.Bucket, want)
		}
		k := n.Addr + "|" + fmt.Sprintf("%x", n.Id)
		if seen[k] {
			return fmt.Sprintf("duplicate-entry: %s", k)
		}
		seen[k] = true
		lens[n.Bucket]++
	}
	for b, l := range lens {
		if l > 8 {
			return fmt.Sprintf("bucket-overfull: bucket %d holds %d", b, l)
		}
	}
	for b, l := range s.T.BucketLens {
		if l != lens[b] {
			return fmt.Sprintf("bucket-len-mismatch: bucket %d len %d vs %d entries", b, l, lens[b])
		}
	}
	// address index == entries exactly
	idx := map[string]bool{}
	for _, e := range s.T.AddrIndex {
		if idx[e] {
			return "addr-index-duplicate: " + e
		}
		idx[e] = true
		if !seen[e] {
			return "addr-index-stale: " + e + " indexed but not in a bucket"
		}
	}
	for k := range seen {
		if !idx[k] {
			return "addr-index-missing: " + k
		}
	}
	// API agreement
	nn := y.S.NumNodes()
	st := y.S.Stats()
	if nn != len(s.T.Nodes) {
		return fmt.Sprintf("numnodes-mismatch: NumNodes()=%d entries=%d", nn, len(s.T.Nodes))
	}
	if st.Nodes != len(s.T.Nodes) {
		return fmt.Sprintf("stats-nodes-mismatch: Stats().Nodes=%d entries=%d", st.Nodes, len(s.T.Nodes))
	}
	good := 0
	notBad := map[string]bool{}
	for k, n := range s.ByKey {
		if y.refGood(s.Now, n) {
			good++
		}
		if !y.refBad(n) {
			notBad[k] = true
		}
	}
	if st.GoodNodes != good {
		return fmt.Sprintf("goodnodes-mismatch: Stats().GoodNodes=%d reference=%d", st.GoodNodes, good)
	}
	exp := y.S.Nodes()
	got := map[string]bool{}
	for _, ni := range exp {
		k := (&net.UDPAddr{IP: ni.Addr.IP, Port: ni.Addr.Port}).String() + "|" + fmt.Sprintf("%x", ni.ID)
		if got[k] {
			return "nodes-export-duplicate: " + k
		}
		got[k] = true
	}
	if len(got) != len(notBad) {
		return fmt.Sprintf("nodes-export-mismatch: Nodes() has %d, not-bad entries %d", len(got), len(notBad))
	}
	for k := range notBad {
		if !got[k] {
			return "nodes-export-mismatch: missing " + k
		}
	}
	var sb strings.Builder
	y.S.WriteStatus(&sb)
	wantLine := fmt.Sprintf("Nodes in table: %d good, %d total", good, len(s.T.Nodes))
	if !strings.Contains(sb.String(), wantLine) {
		return fmt.Sprintf("writestatus-mismatch: want %q", wantLine)
	}
	return ""
}

// c06Transition checks the admission / eviction rules on one transition.
func (y *tblSys) c06Transition(b tblSnap, ev tblEvent, a tblSnap) string {
	y.useRefFailed = true
	defer func() { y.useRefFailed = false }()
	// entries that left the table lose their flag
	for k := range y.refFailed {
		if _, in := a.ByKey[k]; !in {
			if _, was := b.ByKey[k]; !was {
				delete(y.refFailed, k)
			}
		}
	}
	var added, removed []string
	for k := range a.ByKey {
		if _, ok := b.ByKey[k]; !ok {
			added = append(added, k)
		}
	}
	for k := range b.ByKey {
		if _, ok := a.ByKey[k]; !ok {
			removed = append(removed, k)
		}
	}
	sort.Strings(added)
	sort.Strings(removed)
	senderKey := ""
	eligible := false
	if ev.Sender != nil && ev.Admits {
		senderKey = ev.Sender.Addr.String() + "|" + fmt.Sprintf("%x", ev.SenderID)
		// the blocklist concerns datagrams; the explicit add API is not a datagram source
		eligible = !ev.ReadOnly && (ev.ViaAPI || !y.blocked(ev.Sender.Addr.IP)) &&
			ev.SenderID != sim.Root && ev.SenderID != (sim.ID{}) &&
			(!y.cfg.Security || refSecure(ev.SenderID, ev.Sender.Addr.IP))
	}
	for _, k := range added {
		if k != senderKey {
			return fmt.Sprintf("admitted-non-sender: %s entered the table on %s (sender %q)", y.nm(k), ev.Letter, y.nm(senderKey))
		}
		if !eligible {
			return fmt.Sprintf("admitted-ineligible: %s entered the table on %s", y.nm(k), ev.Letter)
		}
	}
	if len(removed) > 1 {
		return fmt.Sprintf("evicted-many: %v removed on %s", removed, ev.Letter)
	}
	for _, k := range removed {
		n := b.ByKey[k]
		if len(added) != 1 {
			return fmt.Sprintf("evicted-without-newcomer: %s removed on %s", y.nm(k), ev.Letter)
		}
		nb := a.ByKey[added[0]].Bucket
		if nb != n.Bucket {
			return fmt.Sprintf("evicted-other-bucket: %s (bucket %d) removed for newcomer in bucket %d", y.nm(k), n.Bucket, nb)
		}
		if b.T.BucketLens[n.Bucket] < 8 {
			return fmt.Sprintf("evicted-with-room: %s removed although bucket %d held %d", y.nm(k), n.Bucket, b.T.BucketLens[n.Bucket])
		}
		if y.refGood(b.Now, n) {
			return fmt.Sprintf("evicted-good: %s was good and was removed on %s", y.nm(k), ev.Letter)
		}
		if !(y.refBad(n) || (n.LastGotResponse.IsZero() && ev.Responded)) {
			return fmt.Sprintf("evicted-not-bad: %s (responded=%v) removed on %s", y.nm(k), !n.LastGotResponse.IsZero(), ev.Letter)
		}
	}
	for k, n := range b.ByKey {
		if y.refGood(b.Now, n) {
			if _, ok := a.ByKey[k]; !ok {
				return fmt.Sprintf("evicted-good: %s", y.nm(k))
			}
		}
	}
	if eligible && !ev.ViaAPI {
		_, was := b.ByKey[senderKey]
		_, is := a.ByKey[senderKey]
		bi := sim.CommonPrefixLen(sim.Root, ev.SenderID)
		if !was && !is && b.T.BucketLens[bi] < 8 {
			return fmt.Sprintf("not-admitted: eligible sender %s not admitted on %s though bucket %d held %d", y.nm(senderKey), ev.Letter, bi, b.T.BucketLens[bi])
		}
	}
	return ""
}

func (y *tblSys) nm(k string) string {
	if n, ok := y.byKey[k]; ok {
		return n
	}
	return k
}

// refSecure is an independent BEP 42 check (bitwise CRC32-C, no tables shared with the code).
func refSecure(id sim.ID, ip net.IP) bool {
	if ip4 := ip.To4(); ip4 != nil {
		ip = ip4
	}
	if refLocal(ip) {
		return true
	}
	var masked []byte
	if len(ip) == 4 {
		m := []byte{0x03, 0x0f, 0x3f, 0xff}
		for i := range m {
			masked = append(masked, ip[i]&m[i])
		}
	} else {
		m := []byte{0x01, 0x03, 0x07, 0x0f, 0x1f, 0x3f, 0x7f, 0xff}
		for i := range m {
			masked = append(masked, ip[i]&m[i])
		}
	}
	masked[0] |= (id[19] & 7) << 5
	c := crc32c(masked)
	return id[0] == byte(c>>24) && id[1] == byte(c>>16) && id[2]&0xf8 == byte(c>>8)&0xf8
}

func crc32c(b []byte) uint32 {
	crc := ^uint32(0)
	for _, x := range b {
		crc ^= uint32(x)
		for i := 0; i < 8; i++ {
			if crc&1 != 0 {
				crc = crc>>1 ^ 0x82F63B78
			} else {
				crc >>= 1
			}
		}
	}
	return ^crc
}

func refLocal(ip net.IP) bool {
	if len(ip) == 4 {
		switch {
		case ip[0] == 10, ip[0] == 172 && ip[1]&0xf0 == 16, ip[0] == 192 && ip[1] == 168,
			ip[0] == 169 && ip[1] == 254, ip[0] == 127:
			return true
		}
		return false
	}
	if len(ip) == 16 {
		if ip[0] == 0xfe && ip[1]&0xc0 == 0x80 {
			return true
		}
		lo := true
		for i := 0; i < 15; i++ {
			if ip[i] != 0 {
				lo = false
			}
		}
		return lo && ip[15] == 1
	}
	return false
}

// runTable executes one case of the table explorer. which selects the reported oracle
// ("C05" invariants or "C06" transition rules); both are evaluated so that the explorer
// cannot silently walk through an ill-formed state.
func runTable(t *testing.T, c explore.Case, which string) (res explore.Result) {
	// Unit: "cfg=<name>;start=<name>"
	var cfgName, startName string
	for _, kv := range strings.Split(c.Unit, ";") {
		if v, ok := strings.CutPrefix(kv, "cfg="); ok {
			cfgName = v
		}
		if v, ok := strings.CutPrefix(kv, "start="); ok {
			startName = v
		}
	}
	cfg, ok1 := tblCfgs[cfgName]
	start, ok2 := tblStarts[startName]
	if !ok1 || !ok2 {
		res.Viol = "HARNESS: bad unit " + c.Unit
		return
	}
	p := Bubble(t, func() {
		y := newTblSys(cfg)
		defer y.Close()
		before := y.snap()
		step := func(letter string, isStart bool) bool {
			letter, enabled := y.resolve(letter, before)
			if !enabled {
				res.Stop = true
				res.Outcome = "letter-disabled"
				return false
			}
			ev, err := y.apply(letter)
			res.Steps++
			if err != nil {
				res.Viol = "HARNESS: " + err.Error()
				return false
			}
			after := y.snap()
			v5 := y.c05Invariant(after)
			v6 := y.c06Transition(before, ev, after)
			before = after
			switch {
			case which == "C05" && v5 != "":
				res.Viol = v5 + fmt.Sprintf(" [after %s]", letter)
			case which == "C06" && v6 != "":
				res.Viol = v6
			case v5 != "" || v6 != "":
				// the other property's oracle failed: stop extending, its own check reports it
				res.Stop = true
				res.Outcome = "other-property-violated"
				return false
			}
			return res.Viol == ""
		}
		for _, l := range start {
			if !step(l, true) {
				return
			}
		}
		for _, l := range c.H {
			if !step(l, false) {
				return
			}
		}
		if eps := time.Since(y.start) - y.tletter; eps >= time.Minute {
			res.Viol = fmt.Sprintf("HARNESS: accumulated non-letter virtual time %v breaks the age-class abstraction", eps)
			return
		}
		res.Key = y.key(before)
		res.DetKey = y.anonKey(before)
		res.Outcome = fmt.Sprintf("n=%d", len(before.T.Nodes))
	})
	if p != "" && res.Viol == "" {
		res.Viol = "panic: " + p
	}
	return
}

func tblAlphabet(cfg tblCfg, core bool) []string {
	var a []string
	add := func(s ...string) { a = append(a, s...) }
	add("T1", "T16")
	add("Q:n1", "P:n1:ok", "A:n1", "P:n2:ok", "Q:n2")
	for _, r := range []string{"good", "nevr", "fail", "quest"} {
		add("Q:@"+r, "P:@"+r+":ok", "F:@"+r)
	}
	add("Q:@absent", "P:@absent:ok", "H:@fail:n1")
	if cfg.Security {
		add("Q:i1", "P:i1:ok", "Q:l1", "Q:zl")
	}
	if cfg.Block != nil {
		add("Q:bx", "P:bx:ok")
	}
	if core {
		return a
	}
	add("A:n2", "P:n1:to", "F:n1", "F:@quest:ok", "A:@absent")
	add("Q:c1", "P:c1:ok", "Q:self", "P:n1:as=self", "Q:zero", "P:n2:as=zero", "A:self", "A:zero")
	add("H:@good:n1", "H:n1:n2", "U:n1", "Mm:n1", "Mm:n1:ip", "E:n1", "Qro:n1", "Pro:n1")
	add("Pc:n1", "Pblk:n2")
	add("A:bx", "Q:v6", "P:v6:ok")
	if cfg.Block == nil {
		add("Q:bx", "P:bx:ok")
	}
	if cfg.Security {
		add("A:i1", "P:i2:ok", "H:n1:i1")
	} else {
		add("Q:d1", "Q:d2", "P:d2:ok", "Q:a1", "Q:a2", "P:a2:ok", "A:a1")
		add("Q:z9", "P:n1:as=@good", "P:n1:as=n2")
		add("Q:n1m", "P:n1m:ok", "A:n1m")
	}
	return a
}
