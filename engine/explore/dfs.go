package explore

import (
	"fmt"
	"os"
	"strconv"
	"strings"
	"time"
)

// ---- E2: stateless depth-first search over scheduler choices with deviation bounding ----------
//
// An execution is determined by its choice sequence: at every scheduling point the enabled threads
// are listed in canonical order (the running thread first if it is still enabled, then the others
// by identity) and one index is chosen. Run replays a prefix and then takes choice 0 everywhere.
// Alternatives carry a cost: switching away from a still-enabled running thread is one preemption;
// scheduling an observer thread (the stall poller) costs one observation instead. The search visits
// every choice sequence whose total cost stays within (Preempt, Observe).

type Alt struct {
	Name    string
	Preempt int // 1 if choosing it preempts a running, still enabled thread
	Observe int // 1 if it is an observer step
}

type SchedPoint struct {
	Alts   []Alt // Alts[0] is the default choice
	Chosen int
	Key    uint64 // global state key at this point (0 = none); used by state pruning
}

type Exec struct {
	Points []SchedPoint
	Res    Result
	Trace  string // canonical rendering of the schedule (for the determinism self-check)
	Err    string // harness-level error (replay divergence, ambiguous thread identity)
}

type DFS struct {
	W        *Worker
	Unit     string
	Preempt  int // preemption bound (<0: unbounded)
	Observe  int // observation bound
	Run      func(prefix []int) Exec
	DetCheck int
	MaxViol  int // stop the unit after this many violating executions (default 10)
	// OnlyShard: distribute first-level subtrees over the worker's shards.
	ShardTop bool

	// Prune: do not branch again from a state (Key) that was already expanded with at most the
	// same budgets used. Sound as far as Key determines the future; see DESIGN.md 3.2.
	Prune   bool
	visited map[uint64][][2]int
	Pruned  int
	States  int

	// Deadline (optional): stop this unit at that time even if the worker has budget left.
	Deadline time.Time
	TimedOut bool

	Executions int
	Violating  int
	MaxPoints  int
	capped     bool
}

func ChoicesToH(ch []int) []string {
	h := make([]string, len(ch))
	for i, c := range ch {
		h[i] = strconv.Itoa(c)
	}
	return h
}

func HToChoices(h []string) ([]int, error) {
	out := make([]int, len(h))
	for i, s := range h {
		v, err := strconv.Atoi(s)
		if err != nil {
			return nil, err
		}
		out[i] = v
	}
	return out, nil
}

// trimChoices drops trailing default choices: the remaining prefix reproduces the execution.
func trimChoices(ch []int) []int {
	n := len(ch)
	for n > 0 && ch[n-1] == 0 {
		n--
	}
	return ch[:n]
}

func (d *DFS) Explore() {
	if d.MaxViol == 0 {
		d.MaxViol = 10
	}
	d.explore(nil, 0, 0, 0)
}

func (d *DFS) one(prefix []int) (Exec, bool) {
	w := d.W
	c := Case{Prop: w.Prop, Unit: d.Unit, H: ChoicesToH(prefix)}
	w.Journal(c)
	x := d.Run(prefix)
	if d.DetCheck > 0 && x.Err == "" {
		d.DetCheck--
		x2 := d.Run(prefix)
		switch {
		case x2.Res.Outcome != x.Res.Outcome || (x.Res.Viol == "") != (x2.Res.Viol == ""):
			w.Harness(fmt.Sprintf("nondeterministic replay of %v: trace/outcome differ (%q vs %q)", c, x.Res.Outcome, x2.Res.Outcome))
		case x2.Trace != x.Trace:
			// Same observable result, another sequence of scheduling points: the second run of one
			// schedule in this process took other code paths - state that outlives an execution
			// (a package-level cache or pool in the code under test). A stateless explorer cannot
			// enumerate such a scenario; it is given up, loudly, rather than explored unsoundly.
			w.Cap(fmt.Sprintf("%s: two runs of one schedule differ in their scheduling points although they end alike (process-global state?): scenario not explored", d.Unit))
			d.capped = true
			w.Record(c, Result{Outcome: "not-repeatable"})
			return x, false
		}
	}
	if x.Err != "" {
		w.Harness(fmt.Sprintf("%v: %s", c, x.Err))
		w.Record(c, Result{Outcome: "harness-error"})
		return x, false
	}
	if x.Res.Viol != "" && strings.HasPrefix(x.Res.Viol, "horizon") && os.Getenv("VERIF_RD") != "" {
		// race-directed runs put points into arbitrary code, loops included: an execution that
		// outgrows the step horizon there is a limit of the exploration, not a liveness verdict
		w.Cap(fmt.Sprintf("%s: race-directed run exceeded the step horizon; exploration of this unit stopped", d.Unit))
		d.capped = true
		x.Res.Viol = ""
		x.Res.Outcome = "rd-horizon"
	}
	d.Executions++
	if len(x.Points) > d.MaxPoints {
		d.MaxPoints = len(x.Points)
	}
	if x.Res.Viol != "" {
		// report the shortest reproducing prefix
		full := make([]int, len(x.Points))
		for i, p := range x.Points {
			full[i] = p.Chosen
		}
		c.H = ChoicesToH(trimChoices(full))
		d.Violating++
	}
	w.Record(c, x.Res)
	return x, true
}

func (d *DFS) explore(prefix []int, usedP, usedO, depth int) {
	w := d.W
	if d.capped {
		return
	}
	if w.OutOfTime() || (!d.Deadline.IsZero() && time.Now().After(d.Deadline)) {
		w.Cap(fmt.Sprintf("%s: time budget hit during DFS (preemption bound %d, %d executions done on shard %d); lower bounds are complete", d.Unit, d.Preempt, d.Executions, w.ShardI))
		d.capped = true
		d.TimedOut = true
		return
	}
	if d.Violating >= d.MaxViol {
		w.Cap(fmt.Sprintf("%s: stopped after %d violating executions", d.Unit, d.Violating))
		d.capped = true
		return
	}
	mineRoot := !d.ShardTop || depth > 0 || w.ShardI == 0
	var x Exec
	if depth == 0 && !mineRoot {
		// other shards still need the root execution to enumerate its subtrees, but do not count it
		x = d.Run(prefix)
		if x.Err != "" {
			return
		}
	} else {
		var ok bool
		x, ok = d.one(prefix)
		if !ok {
			return
		}
	}
	if x.Res.Viol != "" || x.Res.Stop {
		if depth > 0 || mineRoot {
			return
		}
	}
	child := 0
	for i := len(prefix); i < len(x.Points); i++ {
		p := x.Points[i]
		if d.Prune && p.Key != 0 {
			if d.visited == nil {
				d.visited = map[uint64][][2]int{}
			}
			dom := false
			for _, v := range d.visited[p.Key] {
				if v[0] <= usedP && v[1] <= usedO {
					dom = true
					break
				}
			}
			if dom {
				d.Pruned++
				break
			}
			if len(d.visited[p.Key]) == 0 {
				d.States++
			}
			d.visited[p.Key] = append(d.visited[p.Key], [2]int{usedP, usedO})
		}
		for alt := 1; alt < len(p.Alts); alt++ {
			a := p.Alts[alt]
			if d.Preempt >= 0 && usedP+a.Preempt > d.Preempt {
				continue
			}
			if usedO+a.Observe > d.Observe {
				continue
			}
			k := child
			child++
			if depth == 0 && d.ShardTop && k%w.ShardN != w.ShardI {
				continue
			}
			np := make([]int, i+1)
			for j := 0; j < i; j++ {
				np[j] = x.Points[j].Chosen
			}
			np[i] = alt
			d.explore(np, usedP+a.Preempt, usedO+a.Observe, depth+1)
			if d.capped {
				return
			}
		}
	}
}

// TraceOf renders a schedule canonically.
func TraceOf(points []SchedPoint) string {
	var b strings.Builder
	for _, p := range points {
		for i, a := range p.Alts {
			if i > 0 {
				b.WriteByte(',')
			}
			b.WriteString(a.Name)
		}
		b.WriteString(">")
		b.WriteString(strconv.Itoa(p.Chosen))
		b.WriteByte(';')
	}
	return b.String()
}
