package explore

import (
	"fmt"
)

// BFS is the explicit-state explorer E1. A state is identified with a shortest history reaching
// it; successors are produced by re-running history+letter on a fresh instance (Run does that,
// inside its own bubble). Canonical keys deduplicate states.
type BFS struct {
	W        *Worker
	Unit     string
	Alphabet []string
	// Enabled, if set, restricts the letters tried after a history whose last result was r.
	Enabled func(hist []string) []string
	// Prefix is a fixed leading part of every history of this unit (not counted in MaxDepth).
	Prefix   []string
	Run      func(c Case) Result
	MaxDepth int
	// DetCheck: number of leading executions that are run twice and must agree.
	DetCheck int
	// Keep going below a violating state? Default false: a violating history is not extended.
	seen map[string]struct{}
}

// Explore returns (#distinct states including the initial one, depth fully completed).
func (b *BFS) Explore() (states int, depthDone int) {
	w := b.W
	b.seen = map[string]struct{}{}
	root := Case{Prop: w.Prop, Unit: b.Unit, H: append([]string(nil), b.Prefix...)}
	w.Journal(root)
	r0 := b.Run(root)
	w.Record(root, r0)
	if r0.Viol != "" {
		return 1, 0
	}
	b.seen[r0.Key] = struct{}{}
	frontier := [][]string{{}}
	det := b.DetCheck
	for d := 1; d <= b.MaxDepth && len(frontier) > 0; d++ {
		var next [][]string
		for hi, h := range frontier {
			if w.OutOfTime() {
				w.Cap(fmt.Sprintf("%s: time budget hit at depth %d (%d/%d histories of that depth expanded); depth %d complete", b.Unit, d, hi, len(frontier), d-1))
				w.AddStates(len(b.seen))
				return len(b.seen), d - 1
			}
			letters := b.Alphabet
			if b.Enabled != nil {
				letters = b.Enabled(h)
			}
			for _, a := range letters {
				hist := append(append(make([]string, 0, len(h)+1), h...), a)
				c := Case{Prop: w.Prop, Unit: b.Unit, H: append(append([]string(nil), b.Prefix...), hist...)}
				w.Journal(c)
				r := b.Run(c)
				if det > 0 {
					det--
					r2 := b.Run(c)
					// A run that ends in a violation is confirmed by the driver's replays instead:
					// the implementation itself may be nondeterministic (map iteration order).
					if r.Viol == "" && r2.Viol != "" {
						r = r2
					} else if r.Viol == "" && (r2.DetKey != r.DetKey || (r.DetKey == "" && r2.Key != r.Key) || r2.Outcome != r.Outcome) {
						w.Harness(fmt.Sprintf("nondeterministic replay of %v: key %q vs %q, outcome %q vs %q, viol %q vs %q", c, r.Key, r2.Key, r.Outcome, r2.Outcome, r.Viol, r2.Viol))
					}
				}
				w.Record(c, r)
				if r.Viol != "" || r.Stop {
					continue
				}
				if r.Key != "" {
					if _, ok := b.seen[r.Key]; ok {
						continue
					}
					b.seen[r.Key] = struct{}{}
				}
				next = append(next, hist)
			}
		}
		frontier = next
		depthDone = d
	}
	w.AddStates(len(b.seen))
	return len(b.seen), depthDone
}

// Harness records a defect of the machinery itself (never a property verdict). The driver turns
// any such entry into exit status 2.
func (w *Worker) Harness(msg string) {
	w.mu.Lock()
	defer w.mu.Unlock()
	if len(w.S.HarnessErrors) < 20 {
		w.S.HarnessErrors = append(w.S.HarnessErrors, msg)
	}
}
