//go:build verife2

package props

import (
	"fmt"
	"net"
	"strings"
	"testing"
	"time"

	"github.com/anacrolix/dht/v2"
	"github.com/anacrolix/dht/v2/krpc"
	"github.com/anacrolix/dht/v2/verifsched"

	"verif/explore"
)

// C17 with concurrent callers: SecureNodeId / NodeIdSecure are called from traversals, the serve
// loop and applications at the same time (TraversalNodeFilter runs without the server lock), so the
// BEP 42 rule has to hold for each caller whatever the others do. Three threads with different
// addresses and seeds under the schedule explorer; every synchronisation operation the functions
// perform (none on the pinned tree) is a scheduling point, lock releases included.

type s17Job struct {
	ip      net.IP
	id      krpc.ID
	secured krpc.ID
	okAfter bool
	okOther bool // NodeIdSecure(secured, other thread's ip)
	other   net.IP
}

// s17Sets: the callers' (address, address verified against) pairs. In "near" the addresses agree in
// their low bits and differ in high ones: inputs chosen to collide in whatever table a
// performance-minded change might index by the low bits of the address.
var s17Sets = map[string][][2]net.IP{
	"callers3": {
		{net.IP{124, 31, 75, 21}, net.IP{21, 75, 31, 124}},
		{net.IP{21, 75, 31, 124}, net.ParseIP("2001:db8:1:2:3:4:5:6")},
		{net.ParseIP("2001:db8:1:2:3:4:5:6"), net.IP{124, 31, 75, 21}},
	},
	"near3": {
		{net.IP{41, 3, 33, 64}, net.IP{41, 7, 33, 64}},
		{net.IP{41, 7, 33, 64}, net.IP{41, 7, 33, 0}},
		{net.IP{41, 7, 33, 0}, net.IP{41, 3, 33, 64}},
	},
}

func runS17(t *testing.T, set string, prefix []int) (x explore.Exec) {
	var c *e2Ctl
	var viol, outcome string
	pan := Bubble(t, func() {
		c = newE2(prefix, 400)
		defer c.done()
		c.S.Fine = true // leaving a critical section is a scheduling point too
		var jobs []*s17Job
		for _, pr := range s17Sets[set] {
			jobs = append(jobs, &s17Job{ip: pr[0], other: pr[1]})
		}
		done := 0
		for i, j := range jobs {
			for k := range j.id {
				j.id[k] = byte(0x11*(i+1) + k)
			}
			j.id[19] = byte(i*3 + 1)
			i, j := i, j
			go func() {
				verifsched.Tag(fmt.Sprintf("h:caller%d", i))
				verifsched.Point("call")
				j.secured = j.id
				dht.SecureNodeId(&j.secured, j.ip)
				verifsched.Point("call")
				j.okAfter = dht.NodeIdSecure(j.secured, j.ip)
				verifsched.Point("call")
				j.okOther = dht.NodeIdSecure(j.secured, j.other)
				done++
			}()
		}
		if !c.loop(nil) {
			if c.err == "" {
				viol = "horizon: the scenario does not finish"
			}
			return
		}
		if _, bl := c.S.Snapshot(); len(bl) > 0 || done < len(jobs) {
			viol = "deadlock: a caller never returned"
			return
		}
		for i, j := range jobs {
			pre := refSecurePrefix(j.ip, j.id[19])
			switch {
			case j.secured[0] != pre[0] || j.secured[1] != pre[1] || j.secured[2]&0xf8 != pre[2]:
				viol = fmt.Sprintf("secure-prefix: caller %d: SecureNodeId(%x, %v) = %x, BEP 42 prescribes prefix %x", i, j.id, j.ip, j.secured, pre)
			case j.secured[19] != j.id[19] || string(j.secured[3:19]) != string(j.id[3:19]) || j.secured[2]&7 != j.id[2]&7:
				viol = fmt.Sprintf("secure-clobber: caller %d: SecureNodeId changed bits outside the 21-bit prefix: %x -> %x", i, j.id, j.secured)
			case !j.okAfter:
				viol = fmt.Sprintf("secured-not-verified: caller %d: NodeIdSecure rejects %x for %v right after SecureNodeId", i, j.secured, j.ip)
			case j.okOther != refSecure(j.secured, j.other):
				viol = fmt.Sprintf("verify-mismatch: caller %d: NodeIdSecure(%x, %v) = %v, BEP 42 says %v", i, j.secured, j.other, j.okOther, !j.okOther)
			}
			if viol != "" {
				return
			}
		}
		outcome = "3 callers ok"
		// the same calls once more, one at a time: whatever the concurrent calls left behind must
		// not poison later sequential use
		verifsched.Install(nil)
		for i, j := range jobs {
			again := j.id
			dht.SecureNodeId(&again, j.ip)
			if again != j.secured || !dht.NodeIdSecure(again, j.ip) {
				viol = fmt.Sprintf("secure-prefix: caller %d: after the concurrent calls, a sequential SecureNodeId(%x, %v) gives %x (then verifies: %v); the reference prescribes %x", i, j.id, j.ip, again, dht.NodeIdSecure(again, j.ip), j.secured)
				return
			}
		}
	})
	if c != nil {
		x.Points = c.points
		x.Trace = explore.TraceOf(c.points)
		x.Err = c.err
	}
	if pan != "" && viol == "" && x.Err == "" {
		viol = "bubble: " + firstLineOf(pan)
	}
	x.Res.Steps = len(x.Points)
	x.Res.Outcome = outcome
	if viol != "" {
		x.Res.Viol = viol + " [schedule: " + c13Sched(x.Points) + "]"
	}
	return
}

func init() {
	c17SyncTier = func(t *testing.T, w *explore.Worker, idx *int) {
		i := *idx
		*idx++
		if !w.Mine(i) {
			return
		}
		pb := 3
		if w.Thorough() {
			pb = -1
		}
		w.Bound("sync_tier_preemption_bound", pb)
		for _, set := range []string{"callers3", "near3"} {
			set := set
			unit := "sync;scn=" + set
			w.BeginUnit(i, unit)
			d := &explore.DFS{W: w, Unit: unit, Preempt: pb, Observe: 0, DetCheck: 2, MaxViol: 5,
				Run: func(prefix []int) explore.Exec { return runS17(t, set, prefix) }}
			d.Deadline = time.Now().Add(w.Remaining() / 3)
			d.Explore()
			w.Note(fmt.Sprintf("%s: %d executions, max %d scheduling points", unit, d.Executions, d.MaxPoints))
			w.Flush(false)
		}
	}
	c17SyncReplay = func(t *testing.T, c explore.Case) explore.Result {
		set := strings.TrimPrefix(c.Unit, "sync;scn=")
		if s17Sets[set] == nil {
			return explore.Result{Viol: "HARNESS: unknown scenario " + c.Unit}
		}
		ch, _ := explore.HToChoices(c.H)
		x := runS17(t, set, ch)
		if x.Err != "" {
			return explore.Result{Viol: "HARNESS: " + x.Err}
		}
		return x.Res
	}
}
