#!/bin/bash
# usage: tools/seed3file.sh C05 [C06 ...] — confirm and file round-6 seeded changes delivered under /tmp/seed6/<ID>-out/m<k>
export GOFLAGS=-mod=mod GOPROXY=off GOSUMDB=off GOTOOLCHAIN=local
for id in "$@"; do
  for d in /tmp/seed6/$id-out/m*; do
    [ -f "$d/patch.diff" ] || continue
    k=$(basename $d)
    [ -f "/verif/seeded/$id-r6$k/meta.json" ] && continue
    needs=$(grep -i -A3 "need" "$d/README.md" | head -4 | tr '\n' ' ' | cut -c1-400)
    python3 /verif/tools/seedconfirm.py "$d" "$id-r6$k" --prop $id --check $id --needs "$needs" 2>&1 | tail -3
  done
done
