//go:build verife2

package props

import (
	"fmt"
	"os"
	"sort"
	"strings"
	"testing"
	"testing/synctest"
	"time"

	"github.com/anacrolix/dht/v2"
	"github.com/anacrolix/dht/v2/krpc"
	"github.com/anacrolix/dht/v2/types"
	"github.com/anacrolix/dht/v2/verifsched"

	"verif/explore"
	"verif/sim"
)

// Serializability tier ("lin") for the properties whose other tiers run one event at a time: 2-3
// events - inbound datagrams, replies to pending queries, API calls - hit the real Server at the
// same time under the schedule explorer (overlay with scheduling points at every lock operation
// and release, goroutine start, socket write). The observation afterwards (routing table, written
// datagrams, peer store) must be one that SOME sequential order of the same events produces on a
// fresh server; the sequential outcomes are computed with the same code, one event at a time.
// A narrowed critical section, a check and its action split over two critical sections, state
// published before it is complete: all show up as an outcome no sequential order explains.
//
// events:  Q:<peer>   inbound ping from peer          G:<peer>  inbound find_node (target = own id)
//          A:<peer>   Server.AddNode(peer)            R:<peer>  the reply to our pending ping to peer
//          S          Stats + Nodes + NumNodes        B:<peer>  SetIPBlockList(list covering peer)
//          N:<peer>:<port>  announce_peer (valid token, port)   V  get_peers for the infohash

type linScn struct {
	Name   string
	Start  string   // tblStarts name
	Pre    []string // events executed one at a time before the concurrent ones
	Pend   []string // peers to which an own ping is pending before the events start
	Events []string
	Post   []string // events executed one at a time after the concurrent ones have settled
	Store  bool     // with the bundled peer store
	Tokens bool     // afterwards every token handed out is used by its recipient
	Cfg    string   // tblCfgs name ("" = plain)
	Heavy  bool     // thorough tier only
}

type linObs struct {
	Table   string
	Replies string
	Peers   string
	Inv     string // C05 invariant violation text, if any
}

func (o linObs) String() string { return o.Table + " || " + o.Replies + " || " + o.Peers }

type linEnv struct {
	// dropTo: destinations that a B event of the scenario blocklists. A datagram to such an address
	// (the reply to a query that was handled just before the list arrived, a resend) is written or
	// suppressed depending on where the installation falls inside the event - both are fine for the
	// properties, so datagrams to these destinations are not part of the observation.
	dropTo     map[string]bool
	y          *tblSys
	post       []string
	testTokens bool
	pend       map[string]string // peer name -> tid of our pending ping
	tokens     map[string]string // peer name -> valid get_peers token
	mark       int
}

func linSetup(scn *linScn) (*linEnv, string) {
	var extra []SysOpt
	if scn.Store {
		extra = append(extra, WithPeerStore())
	}
	cfgName := scn.Cfg
	if cfgName == "" {
		cfgName = "plain"
	}
	y := newTblSys(tblCfgs[cfgName], extra...)
	for _, l := range tblStarts[scn.Start] {
		if _, err := y.apply(l); err != nil {
			return nil, "HARNESS: " + err.Error()
		}
	}
	e := &linEnv{y: y, post: scn.Post, testTokens: scn.Tokens, pend: map[string]string{}, tokens: map[string]string{}, dropTo: map[string]bool{}}
	for _, ev := range append(append([]string(nil), scn.Pre...), scn.Events...) {
		f := strings.Split(ev, ":")
		if f[0] == "B" {
			e.dropTo[y.peers[f[1]].Addr.String()] = true
		}
		if f[0] == "N" {
			p := y.peers[f[1]]
			if e.tokens[f[1]] == "" {
				e.tokens[f[1]] = y.fetchToken(p.Addr, "get_peers")
			}
		}
	}
	for _, ev := range scn.Pre {
		e.do(ev)
		synctest.Wait()
	}
	for _, pn := range scn.Pend {
		p := y.peers[pn]
		tid, _, ok := y.startQuery(p, "ping")
		if !ok {
			return nil, "HARNESS: could not start the pending ping to " + pn
		}
		e.pend[pn] = tid
	}
	synctest.Wait()
	y.Take()
	e.mark = y.Conn.NumWrites()
	return e, ""
}

// do executes one event without waiting for anything (callable from a scheduled thread).
func (e *linEnv) do(ev string) {
	y := e.y
	f := strings.Split(ev, ":")
	var p peer
	if len(f) > 1 {
		p = y.peers[f[1]]
	}
	switch f[0] {
	case "Q":
		y.Conn.InjectSync(p.Addr, sim.Query("lq"+f[1], "ping", sim.M{"id": sim.IDStr(p.ID)}))
	case "G": // G:<peer>[:<bucket of the target>]
		b := 0
		if len(f) > 2 {
			fmt.Sscanf(f[2], "%d", &b)
		}
		y.Conn.InjectSync(p.Addr, sim.Query("lg"+f[1], "find_node", sim.M{"id": sim.IDStr(p.ID), "target": sim.IDStr(sim.InBucket(sim.Root, b, 55))}))
	case "A":
		y.S.AddNode(krpc.NodeInfo{ID: p.ID, Addr: krpc.NodeAddr{IP: p.Addr.IP, Port: p.Addr.Port}})
	case "R":
		y.Conn.InjectSync(p.Addr, sim.Reply(e.pend[f[1]], sim.M{"id": sim.IDStr(p.ID)}))
	case "F": // the exported candidate filter every traversal calls (without the server lock)
		var ami types.AddrMaybeId
		ami.FromNodeInfo(krpc.NodeInfo{ID: p.ID, Addr: krpc.NodeAddr{IP: p.Addr.IP, Port: p.Addr.Port}})
		y.S.TraversalNodeFilter(ami)
	case "S":
		y.S.Stats()
		y.S.Nodes()
		y.S.NumNodes()
	case "B":
		y.S.SetIPBlockList(Blocklist{cidr(p.Addr.IP.String() + "/32")})
	case "N": // N:<peer>:<port>[:<infohash A|B>]
		var port int
		fmt.Sscanf(f[2], "%d", &port)
		ih := "A"
		if len(f) > 3 {
			ih = f[3]
		}
		y.Conn.InjectSync(p.Addr, sim.Query("ln"+f[1]+f[2], "announce_peer", sim.M{"id": sim.IDStr(p.ID), "info_hash": sim.IDStr(ihOf(ih)), "port": port, "token": e.tokens[f[1]]}))
	case "V": // V[:<infohash A|B>[:<source>]]
		ih, src := "A", srcProbe
		if len(f) > 1 {
			ih = f[1]
		}
		if len(f) > 2 {
			src = sources[f[2]]
		}
		y.Conn.InjectSync(src, sim.Query("lv"+ih, "get_peers", sim.M{"id": sim.IDStr(peerID), "info_hash": sim.IDStr(ihOf(ih)), "want": []interface{}{"n4", "n6"}}))
	}
}

// observe: after everything has settled.
func (e *linEnv) observe() (o linObs) {
	y := e.y
	synctest.Wait()
	for _, ev := range e.post {
		e.do(ev)
		synctest.Wait()
	}
	y.settle()
	synctest.Wait()
	s := y.snap()
	var tp []string
	for k, n := range s.ByKey {
		name, ok := y.byKey[k]
		if !ok {
			name = k
		}
		if isEPeer(name) {
			name = "e"
		}
		name = strings.TrimSuffix(name, "m") // n1m is n1 (same address, 16-byte form)
		tp = append(tp, fmt.Sprintf("%s@%d q%v r%v f%v", name, n.Bucket, !n.LastGotQuery.IsZero(), !n.LastGotResponse.IsZero(), n.FailedPing))
	}
	sort.Strings(tp)
	o.Table = strings.Join(tp, ",") + fmt.Sprintf(" tx=%d", s.T.Transactions)
	y.useImplFailed = true
	o.Inv = y.c05Invariant(s)
	var rs []string
	for _, w := range DecodeWrites(y.Conn.WritesSince(e.mark)) {
		if e.dropTo[w.To.String()] {
			continue
		}
		switch w.Y() {
		case "r":
			r := w.R()
			d := fmt.Sprintf("r->%s t=%s", w.To, w.T())
			if ns, ok := sim.Str(r, "nodes"); ok {
				var names []string
				for i := 0; i+26 <= len(ns); i += 26 {
					var id sim.ID
					copy(id[:], ns[i:i+20])
					nm := fmt.Sprintf("%x", id[:4])
					for pn, pp := range y.peers {
						if pp.ID == id && !strings.HasSuffix(pn, "m") {
							nm = pn
						}
					}
					if isEPeer(nm) {
						nm = "e"
					}
					names = append(names, nm)
				}
				sort.Strings(names)
				d += " nodes=" + strings.Join(names, "+")
			}
			if vs, ok := r["values"].([]interface{}); ok {
				var ps []string
				for _, v := range vs {
					s, _ := v.(string)
					if len(s) == 6 {
						ps = append(ps, fmt.Sprintf("%d.%d.%d.%d:%d", s[0], s[1], s[2], s[3], int(s[4])<<8|int(s[5])))
					} else {
						ps = append(ps, fmt.Sprintf("%x", s))
					}
				}
				sort.Strings(ps)
				d += " values=" + strings.Join(ps, "+")
			}
			rs = append(rs, d)
		case "e":
			rs = append(rs, fmt.Sprintf("e%d->%s t=%s", w.ECode(), w.To, w.T()))
		case "q":
			rs = append(rs, fmt.Sprintf("q:%s->%s", w.Q(), w.To))
		}
	}
	sort.Strings(rs)
	o.Replies = strings.Join(rs, ",")
	// every token handed out in a get_peers reply is put to use by its recipient (one at a time):
	// it must be honoured
	if e.testTokens {
		var tl []string
		for i, w := range DecodeWrites(y.Conn.WritesSince(e.mark)) {
			tok, ok := sim.Str(w.R(), "token")
			if w.Y() != "r" || !ok {
				continue
			}
			before := y.Conn.NumWrites()
			y.Conn.InjectSync(w.To, sim.Query(fmt.Sprintf("tk%d", i), "announce_peer", sim.M{"id": sim.IDStr(peerID), "info_hash": sim.IDStr(ihB), "port": 6000, "token": tok}))
			synctest.Wait()
			verdict := "refused"
			for _, a := range DecodeWrites(y.Conn.WritesSince(before)) {
				if a.Y() == "r" && a.To.String() == w.To.String() {
					verdict = "honoured"
				}
			}
			tl = append(tl, fmt.Sprintf("token->%s %s", w.To, verdict))
		}
		sort.Strings(tl)
		o.Replies += " tokens[" + strings.Join(tl, ",") + "]"
	}
	if ps := y.Cfg.PeerStore; ps != nil {
		var l []string
		for _, na := range ps.GetPeers(ihA) {
			l = append(l, "A:"+na.String())
		}
		for _, na := range ps.GetPeers(ihB) {
			l = append(l, "B:"+na.String())
		}
		sort.Strings(l)
		o.Peers = strings.Join(l, ",")
	}
	return
}

// linAllowed runs every order of the events sequentially (twice: the eviction victim among equals
// is the runtime's choice) and collects the observations.
func linAllowed(t *testing.T, scn *linScn, checkInv bool) (allowed map[string]bool, viol string) {
	allowed = map[string]bool{}
	for rep := 0; rep < 2; rep++ {
		for _, perm := range permutations(len(scn.Events)) {
			pan := Bubble(t, func() {
				e, v := linSetup(scn)
				if v != "" {
					viol = v
					return
				}
				defer func() {
					e.y.Close()
					time.Sleep(time.Second)
					synctest.Wait()
				}()
				for _, i := range perm {
					e.do(scn.Events[i])
					synctest.Wait()
				}
				o := e.observe()
				if o.Inv != "" && checkInv {
					var order []string
					for _, i := range perm {
						order = append(order, scn.Events[i])
					}
					viol = o.Inv + " (after the events " + strings.Join(order, " ; ") + ", one at a time)"
				}
				allowed[o.String()] = true
			})
			if pan != "" && viol == "" {
				viol = "HARNESS: sequential reference run panicked: " + firstLineOf(pan)
			}
			if viol != "" {
				return
			}
		}
	}
	return
}

func runLin(t *testing.T, scn *linScn, allowed map[string]bool, checkInv bool, prefix []int) (x explore.Exec) {
	var c *e2Ctl
	var viol, outcome string
	pan := Bubble(t, func() {
		e, v := linSetup(scn)
		if v != "" {
			viol = v
			return
		}
		y := e.y
		closed := false
		defer func() {
			if !closed {
				y.Close()
			}
			time.Sleep(time.Second)
			synctest.Wait()
		}()
		c = newE2(prefix, 1500)
		defer c.done()
		c.S.Fine = true
		y.Conn.BeforeWrite = func() { verifsched.Point("sock-write") }
		done := 0
		c.stateKey = func() string {
			// Called by the explorer in a quiescent state (every thread parked or blocked). The hook
			// takes the server lock, which the explorer's own goroutine must not do through the
			// scheduler: read it with the scheduler switched off for the moment.
			verifsched.Install(nil)
			tb := y.S.VerifTable()
			verifsched.Install(c.S)
			var ns []string
			for _, n := range tb.Nodes {
				ns = append(ns, fmt.Sprintf("%x%v%v", n.Id[:2], n.LastGotResponse.IsZero(), n.FailedPing))
			}
			sort.Strings(ns)
			return fmt.Sprintf("done=%d w=%d tx=%d n=%v", done, y.Conn.NumWrites(), tb.Transactions, ns)
		}
		for i, ev := range scn.Events {
			i, ev := i, ev
			go func() {
				verifsched.Tag(fmt.Sprintf("h:%d:%s", i, ev))
				verifsched.Point("event")
				e.do(ev)
				done++
			}()
		}
		if !c.loop(nil) {
			if c.err == "" {
				viol = "horizon: the scenario does not finish"
			}
			return
		}
		if _, bl := c.S.Snapshot(); len(bl) > 0 || done < len(scn.Events) {
			var ns []string
			for _, b := range bl {
				ns = append(ns, b.Describe())
			}
			viol = "deadlock: nothing can run and not every event has been processed; waiting: " + strings.Join(ns, ", ")
			return
		}
		y.Conn.BeforeWrite = nil
		verifsched.Install(nil)
		o := e.observe()
		if o.Inv != "" && checkInv {
			viol = o.Inv + " (after the concurrent events " + strings.Join(scn.Events, " ") + ")"
			return
		}
		if !allowed[o.String()] {
			var al []string
			for a := range allowed {
				al = append(al, a)
			}
			sort.Strings(al)
			viol = fmt.Sprintf("not-serializable: events %v at the same time leave {%s}; no sequential order of them does (the orders give: {%s})", scn.Events, o.String(), strings.Join(al, "} or {"))
			return
		}
		outcome = fmt.Sprintf("ok:%d", len(o.String()))
	})
	if c != nil {
		x.Points = c.points
		x.Trace = explore.TraceOf(c.points)
		x.Err = c.err
	}
	if pan != "" && viol == "" && x.Err == "" {
		viol = "bubble: " + firstLineOf(pan)
	}
	x.Res.Steps = len(x.Points)
	x.Res.Outcome = outcome
	if viol != "" {
		x.Res.Viol = viol + " [schedule: " + c13Sched(x.Points) + "]"
	}
	return
}

var linScenarios = map[string][]linScn{
	"C05": {
		{Name: "two-new-nodes", Start: "empty", Events: []string{"Q:n1", "Q:n2"}},
		{Name: "query-vs-add", Start: "empty", Events: []string{"Q:n1", "A:n1", "S"}},
		{Name: "same-node-two-forms", Start: "empty", Events: []string{"Q:n1", "Q:n1m"}},
		{Name: "full-bucket-two-newcomers", Start: "full8nevr", Pend: []string{"n1"}, Events: []string{"R:n1", "Q:n2"}},
		{Name: "add-add-stats", Start: "full8good", Events: []string{"A:n1", "A:n2", "S"}},
		{Name: "three-new-nodes", Heavy: true, Start: "empty", Events: []string{"Q:n1", "Q:n2", "Q:c1"}},
		{Name: "same-node-add-add-query", Heavy: true, Start: "empty", Events: []string{"A:n1", "A:n1m", "Q:n1"}},
		{Name: "full-bucket-reply-add-query", Heavy: true, Start: "full8nevr", Pend: []string{"n1"}, Events: []string{"R:n1", "A:n2", "Q:c1"}},
	},
	"C06": {
		{Name: "reply-vs-query-same-node", Start: "empty", Pend: []string{"n1"}, Events: []string{"R:n1", "Q:n1"}},
		{Name: "reply-vs-blocklist", Start: "empty", Pend: []string{"n1"}, Events: []string{"R:n1", "B:n1"}},
		{Name: "two-replies-full-bucket", Start: "full8nevr", Pend: []string{"n1", "n2"}, Events: []string{"R:n1", "R:n2"}},
		{Name: "query-vs-blocklist", Start: "empty", Events: []string{"Q:n1", "B:n1", "Q:n2"}},
		// a traversal vets a candidate while the blocklist is replaced; datagrams that arrive after
		// both have returned are judged by the new list
		{Name: "filter-vs-blocklist", Start: "empty", Events: []string{"F:n1", "B:n1"}, Post: []string{"Q:n1", "Q:n2"}},
		{Name: "filter-vs-blocklist-replaced", Cfg: "block", Start: "empty", Events: []string{"F:n1", "B:n1"}, Post: []string{"Q:n1", "Q:n2"}},
		{Name: "reply-query-blocklist", Heavy: true, Start: "empty", Pend: []string{"n1"}, Events: []string{"R:n1", "Q:n2", "B:n2"}, Post: []string{"Q:n2"}},
		{Name: "two-filters-blocklist", Heavy: true, Cfg: "block", Start: "empty", Events: []string{"F:n1", "F:n2", "B:n1"}, Post: []string{"Q:n1", "Q:n2"}},
	},
	"C10": {
		{Name: "two-token-issues", Start: "empty", Store: true, Tokens: true, Events: []string{"V:A:probe", "V:B:v6"}},
		{Name: "issue-vs-use", Start: "empty", Store: true, Tokens: true, Pre: []string{"N:n1:7001:A"}, Events: []string{"V:A:probe", "N:n1:7009:A", "V:A:v4"}},
	},
	"C09": {
		{Name: "find-node-vs-newcomer", Start: "empty", Pend: []string{"n1"}, Events: []string{"G:c1", "R:n1"}},
		{Name: "find-node-vs-two", Start: "full8good", Pend: []string{"n1"}, Events: []string{"G:c1", "R:n1", "Q:n2"}},
		// two askers, targets in different buckets, contacts in both buckets: each reply carries the
		// list selected for its own target
		{Name: "two-targets", Start: "full8good", Pre: []string{"A:c1"}, Pend: []string{"c1"}, Events: []string{"R:c1", "G:n1:0", "G:n2:1"}},
		{Name: "three-askers", Heavy: true, Start: "full8good", Pre: []string{"A:c1"}, Pend: []string{"c1"}, Events: []string{"G:n1:0", "G:n2:1", "G:c1:5"}},
	},
	"C11": {
		{Name: "two-infohashes", Start: "empty", Store: true, Pre: []string{"N:n1:7001:A", "N:n2:7002:A", "N:v6:7003:B"}, Events: []string{"V:A:probe", "V:B:v6"}},
		{Name: "announce-vs-get", Start: "empty", Store: true, Pre: []string{"N:n1:7001:A"}, Events: []string{"N:n2:7002:A", "V:A:probe", "V:B:probe"}},
		{Name: "three-getters", Heavy: true, Start: "empty", Store: true, Pre: []string{"N:n1:7001:A", "N:n2:7002:B", "N:v6:7003:B"}, Events: []string{"V:A:probe", "V:B:v6", "V:B:v4"}},
	},
}

func linTier(prop string) func(t *testing.T, w *explore.Worker, idx *int) {
	return func(t *testing.T, w *explore.Worker, idx *int) {
		pb := 2
		if w.Thorough() {
			pb = 3
		}
		w.Bound("lin_tier_preemption_bound", pb)
		for _, scn := range linScenarios[prop] {
			scn := scn
			if os.Getenv("VERIF_NO_LIN") != "" {
				break
			}
			i := *idx
			*idx++
			if !w.Mine(i) || (scn.Heavy && !w.Thorough()) {
				continue
			}
			unit := "lin;scn=" + scn.Name
			w.BeginUnit(i, unit)
			// journalled: a crash while the sequential orders run is attributed to this case
			seqCase := explore.Case{Prop: prop, Unit: unit, H: []string{"sequential"}}
			w.Journal(seqCase)
			allowed, v := linAllowed(t, &scn, prop == "C05")
			w.EndCase()
			if v != "" {
				w.Violate(seqCase, v)
				continue
			}
			d := &explore.DFS{W: w, Unit: unit, Preempt: pb, Observe: 0, DetCheck: 2, Prune: true, MaxViol: 5,
				Run: func(prefix []int) explore.Exec { return runLin(t, &scn, allowed, prop == "C05", prefix) }}
			if w.Thorough() {
				d.Deadline = time.Now().Add(w.Remaining() / 6)
			}
			d.Explore()
			w.AddStates(d.States)
			w.Note(fmt.Sprintf("%s: %d sequential outcomes; %d executions, %d states expanded, %d prunings, max %d scheduling points", unit, len(allowed), d.Executions, d.States, d.Pruned, d.MaxPoints))
			w.Flush(false)
		}
	}
}

func linReplay(prop string) func(t *testing.T, c explore.Case) explore.Result {
	return func(t *testing.T, c explore.Case) explore.Result {
		name := strings.TrimPrefix(c.Unit, "lin;scn=")
		for _, scn := range linScenarios[prop] {
			if scn.Name == name {
				scn := scn
				allowed, v := linAllowed(t, &scn, prop == "C05")
				if v != "" || (len(c.H) == 1 && c.H[0] == "sequential") {
					return explore.Result{Viol: v}
				}
				ch, _ := explore.HToChoices(c.H)
				x := runLin(t, &scn, allowed, prop == "C05", ch)
				if x.Err != "" {
					return explore.Result{Viol: "HARNESS: " + x.Err}
				}
				return x.Res
			}
		}
		return explore.Result{Viol: "HARNESS: unknown scenario " + name}
	}
}

func init() {
	for _, p := range []string{"C05", "C06", "C09", "C10", "C11"} {
		linTiers[p] = linTier(p)
		linReplays[p] = linReplay(p)
	}
}

var _ = dht.NewAddr
