// Package chansync is the scheduler shim for github.com/anacrolix/chansync (see verifsched): the
// same primitives, with a scheduling Point before Broadcast, Signaled and Set.
package chansync

import (
	stdsync "sync"
	"sync/atomic"

	"github.com/anacrolix/chansync/events"

	"github.com/anacrolix/dht/v2/verifsched"
)

type BroadcastCond struct {
	mu stdsync.Mutex
	ch chan struct{}
}

func (me *BroadcastCond) Broadcast() {
	verifsched.Point("broadcast")
	me.mu.Lock()
	defer me.mu.Unlock()
	if me.ch != nil {
		close(me.ch)
		me.ch = nil
	}
}

func (me *BroadcastCond) Signaled() events.Signaled {
	verifsched.Point("signaled")
	me.mu.Lock()
	defer me.mu.Unlock()
	if me.ch == nil {
		me.ch = make(chan struct{})
	}
	return me.ch
}

type SetOnce struct {
	ch        chan struct{}
	closed    uint32
	initOnce  stdsync.Once
	closeOnce stdsync.Once
}

func (me *SetOnce) Done() events.Done {
	me.init()
	return me.ch
}

func (me *SetOnce) init() {
	me.initOnce.Do(func() {
		me.ch = make(chan struct{})
	})
}

func (me *SetOnce) Set() (first bool) {
	verifsched.Point("set")
	me.closeOnce.Do(func() {
		me.init()
		first = true
		atomic.StoreUint32(&me.closed, 1)
		close(me.ch)
	})
	return
}

func (me *SetOnce) IsSet() bool {
	return atomic.LoadUint32(&me.closed) != 0
}

type LevelTrigger struct {
	ch       chan struct{}
	initOnce stdsync.Once
}

func (me *LevelTrigger) Signal() events.Signal {
	me.init()
	return me.ch
}

func (me *LevelTrigger) Active() events.Active {
	me.init()
	return me.ch
}

func (me *LevelTrigger) init() {
	me.initOnce.Do(func() {
		me.ch = make(chan struct{})
	})
}
