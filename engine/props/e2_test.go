//go:build verife2

package props

import (
	"fmt"
	"hash/fnv"
	"sort"
	"strings"
	"testing/synctest"
	"time"

	"github.com/anacrolix/dht/v2/verifsched"

	"verif/explore"
)

// e2Ctl is the explorer side of one scheduled execution (runs in the bubble's root goroutine).
type e2Ctl struct {
	S       *verifsched.Sched
	prefix  []int
	points  []explore.SchedPoint
	running *verifsched.Thread
	steps   int
	horizon int
	err     string
	// env mode: branch only between environment threads, and only when no internal thread can run
	envMode bool
	isEnv   func(t *verifsched.Thread) bool
	// per-step state keys (state pruning and distinct-state statistics)
	stateKey func() string
	states   map[uint64]struct{}
	// loop threads: their position carries no local state while parked; while blocked natively
	// they are keyed by the shared state they last saw
	// clock: if > 0 the explorer may let virtual time pass (root sleeps `tick`), as an extra
	// alternative at every point (costing one observation) and as the default when nothing can run
	tick     time.Duration
	ticks    int // clock steps taken
	maxTicks int
	wantTick func() bool // is there still something a timer could unblock?
	tickOK   func() bool // may time pass in this state? (nil = yes)
	isLoop   func(name string) bool
	lastSeen map[*verifsched.Thread]string
	lastRel  *verifsched.Thread
}

func init() {
	// every bubble starts without a scheduler (an execution that died may have left one installed)
	bubbleStartHook = func() {
		verifsched.Install(nil)
		verifsched.NewEpoch()
	}
}

func newE2(prefix []int, horizon int) *e2Ctl {
	s := verifsched.New()
	verifsched.Install(s)
	return &e2Ctl{S: s, prefix: prefix, horizon: horizon}
}

func (c *e2Ctl) done() { verifsched.Install(nil) }

// loop schedules until no thread is enabled. onQuiescent runs in every quiescent state before the
// next choice. Returns false if the horizon was exceeded or a harness error occurred.
func (c *e2Ctl) loop(onQuiescent func()) bool {
	for {
		synctest.Wait()
		if onQuiescent != nil {
			onQuiescent()
		}
		if len(c.S.Ambiguous) > 0 && c.err == "" {
			// not fatal by itself: the property monitors decide what it means
		}
		en, _ := c.S.Snapshot()
		canTick := c.tick > 0 && c.ticks < c.maxTicks && (c.wantTick == nil || c.wantTick()) && (c.tickOK == nil || c.tickOK())
		if len(en) == 0 && !canTick {
			return true
		}
		if c.steps >= c.horizon {
			return false
		}
		var order []*verifsched.Thread
		runEnabled := false
		for _, t := range en {
			if t == c.running {
				runEnabled = true
			}
		}
		if runEnabled {
			order = append(order, c.running)
		}
		for _, t := range en {
			if t != c.running && !t.Observer {
				order = append(order, t)
			}
		}
		for _, t := range en {
			if t != c.running && t.Observer {
				order = append(order, t)
			}
		}
		var alts []explore.Alt
		if c.envMode {
			var internal, env []*verifsched.Thread
			for _, t := range order {
				if c.isEnv(t) {
					env = append(env, t)
				} else {
					internal = append(internal, t)
				}
			}
			if len(internal) > 0 {
				order = internal[:1]
			} else {
				order = env
			}
			for _, t := range order {
				alts = append(alts, explore.Alt{Name: t.Describe()})
			}
		} else {
			for i, t := range order {
				a := explore.Alt{Name: t.Describe()}
				if i > 0 {
					if t.Observer {
						a.Observe = 1
					} else if runEnabled {
						a.Preempt = 1
					}
				}
				alts = append(alts, a)
			}
		}
		if canTick {
			a := explore.Alt{Name: "clock@tick"}
			if len(alts) > 0 {
				a.Observe = 1
			}
			alts = append(alts, a)
		}
		ch := 0
		if len(c.points) < len(c.prefix) {
			ch = c.prefix[len(c.points)]
			if ch < 0 || ch >= len(alts) {
				c.err = fmt.Sprintf("replay divergence at point %d: choice %d of %d enabled (%s)", len(c.points), ch, len(order), altNames(alts))
				return false
			}
		}
		var key uint64
		if c.stateKey != nil {
			if c.states == nil {
				c.states = map[uint64]struct{}{}
				c.lastSeen = map[*verifsched.Thread]string{}
			}
			sk := c.stateKey()
			if c.lastRel != nil {
				c.lastSeen[c.lastRel] = sk
			}
			hh := fnv.New64a()
			hh.Write([]byte(c.threadKey(runEnabled) + "|" + sk))
			key = hh.Sum64() | 1
			c.states[key] = struct{}{}
		}
		c.points = append(c.points, explore.SchedPoint{Alts: alts, Chosen: ch, Key: key})
		if ch >= len(order) {
			// the clock alternative: let one timer interval pass
			c.ticks++
			c.steps++
			c.lastRel = nil
			time.Sleep(c.tick)
			continue
		}
		t := order[ch]
		c.lastRel = t
		c.steps++
		c.S.Release(t)
		if !t.Observer {
			c.running = t
		}
	}
}

func altNames(a []explore.Alt) string {
	var s []string
	for _, x := range a {
		s = append(s, x.Name)
	}
	return strings.Join(s, ",")
}

// threadKey renders the control state of all threads: for parked threads their pending operation
// (plus the number of steps taken, a program-counter proxy, for straight-line threads); for loop
// threads that are blocked natively the shared state they last saw; and the running thread.
func (c *e2Ctl) threadKey(runEnabled bool) string {
	var s []string
	for _, t := range c.S.All() {
		loop := c.isLoop != nil && c.isLoop(t.Name)
		switch {
		case t.Parked && loop:
			s = append(s, t.Describe())
		case t.Parked:
			s = append(s, fmt.Sprintf("%s#%d", t.Describe(), t.Steps))
		case loop:
			s = append(s, t.Name+"~"+c.lastSeen[t])
		}
	}
	sort.Strings(s)
	r := "-"
	if runEnabled && c.running != nil {
		r = c.running.Name
	}
	return r + "/" + strings.Join(s, ",")
}

// describeChoices renders the chosen thread at every point (for violation details).
func (c *e2Ctl) describeChoices(max int) string {
	var s []string
	for i, p := range c.points {
		if i >= max {
			s = append(s, "...")
			break
		}
		s = append(s, p.Alts[p.Chosen].Name)
	}
	return strings.Join(s, " ")
}
