// Package sync is the scheduler shim for "sync" and "github.com/anacrolix/sync" (see verifsched).
// Injected by overlay; same API surface as the parts of sync the explored packages use.
package sync

import (
	stdsync "sync"

	"github.com/anacrolix/dht/v2/verifsched"
)

type (
	Once      = stdsync.Once
	WaitGroup = stdsync.WaitGroup
	Locker    = stdsync.Locker
	Map       = stdsync.Map
	Pool      = stdsync.Pool
)

type Mutex struct {
	native stdsync.Mutex
	st     verifsched.LockState
}

func (m *Mutex) Lock() {
	if verifsched.Current() == nil {
		m.native.Lock()
		return
	}
	verifsched.Lock(&m.st)
}

func (m *Mutex) Unlock() {
	if verifsched.Current() == nil {
		m.native.Unlock()
		return
	}
	verifsched.Unlock(&m.st)
}

type RWMutex struct {
	native stdsync.RWMutex
	st     verifsched.LockState
}

func (m *RWMutex) Lock() {
	if verifsched.Current() == nil {
		m.native.Lock()
		return
	}
	verifsched.Lock(&m.st)
}

func (m *RWMutex) Unlock() {
	if verifsched.Current() == nil {
		m.native.Unlock()
		return
	}
	verifsched.Unlock(&m.st)
}

func (m *RWMutex) RLock() {
	if verifsched.Current() == nil {
		m.native.RLock()
		return
	}
	verifsched.RLock(&m.st)
}

func (m *RWMutex) RUnlock() {
	if verifsched.Current() == nil {
		m.native.RUnlock()
		return
	}
	verifsched.RUnlock(&m.st)
}
