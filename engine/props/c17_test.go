package props

import (
	"encoding/hex"
	"fmt"
	"net"
	"strconv"
	"strings"
	"testing"

	"github.com/anacrolix/dht/v2"
	"github.com/anacrolix/dht/v2/krpc"

	"verif/explore"
	"verif/sim"
)

// C17 — BEP 42 exactly as specified. Exhaustive over the 2^20 significant IPv4 bits x 8 seeds,
// the IPv6 bit lattice, an ID lattice, the local-network boundaries and the server's own ID.
// Reference: refSecure / crc32c (bitwise CRC32-C, table_test.go) — nothing shared with the code.

// refSecurePrefix returns the 21-bit prefix (as 3 bytes, low 3 bits of the third zero) that BEP 42
// prescribes for ip and seed r.
func refSecurePrefix(ip net.IP, r byte) [3]byte {
	if ip4 := ip.To4(); ip4 != nil {
		ip = ip4
	}
	var masked []byte
	if len(ip) == 4 {
		m := []byte{0x03, 0x0f, 0x3f, 0xff}
		for i := range m {
			masked = append(masked, ip[i]&m[i])
		}
	} else {
		m := []byte{0x01, 0x03, 0x07, 0x0f, 0x1f, 0x3f, 0x7f, 0xff}
		for i := range m {
			masked = append(masked, ip[i]&m[i])
		}
	}
	masked[0] |= (r & 7) << 5
	c := crc32c(masked)
	return [3]byte{byte(c >> 24), byte(c >> 16), byte(c>>8) & 0xf8}
}

// c17Eval checks every clause of the property for one (ip, id) pair. flips: also compare
// NodeIdSecure with the reference on the neighbours of the secured ID.
func c17Eval(ip net.IP, id krpc.ID, flips bool) string {
	orig := id
	sec := id
	dht.SecureNodeId(&sec, ip)
	// only the first 21 bits may change
	for i := 3; i < 20; i++ {
		if sec[i] != orig[i] {
			return fmt.Sprintf("changed-beyond-21-bits: byte %d of %x changed for ip %v", i, orig, ip)
		}
	}
	if sec[2]&7 != orig[2]&7 {
		return fmt.Sprintf("changed-beyond-21-bits: low bits of byte 2 changed for ip %v id %x", ip, orig)
	}
	want := refSecurePrefix(ip, orig[19])
	if sec[0] != want[0] || sec[1] != want[1] || sec[2]&0xf8 != want[2] {
		return fmt.Sprintf("wrong-prefix: SecureNodeId(%x, %v) = %x, BEP 42 prefix is %x", orig, ip, sec[:3], want)
	}
	again := sec
	dht.SecureNodeId(&again, ip)
	if again != sec {
		return fmt.Sprintf("not-idempotent: ip %v id %x", ip, orig)
	}
	if !dht.NodeIdSecure(sec, ip) {
		return fmt.Sprintf("secured-id-rejected: NodeIdSecure(%x, %v) = false", sec, ip)
	}
	if got, ref := dht.NodeIdSecure(orig, ip), refSecure(orig, ip); got != ref {
		return fmt.Sprintf("verify-disagrees: NodeIdSecure(%x, %v) = %v, reference %v", orig, ip, got, ref)
	}
	if flips {
		for b := 0; b < 24; b++ {
			x := sec
			x[b/8] ^= 1 << (7 - uint(b%8))
			if got, ref := dht.NodeIdSecure(x, ip), refSecure(x, ip); got != ref {
				return fmt.Sprintf("verify-disagrees: NodeIdSecure(%x, %v) = %v, reference %v (bit %d flipped)", x, ip, got, ref, b)
			}
		}
		for _, d := range []byte{1, 0xff, 4, 8} {
			x := sec
			x[19] += d
			if got, ref := dht.NodeIdSecure(x, ip), refSecure(x, ip); got != ref {
				return fmt.Sprintf("verify-disagrees: NodeIdSecure(%x, %v) = %v, reference %v (seed byte changed)", x, ip, got, ref)
			}
		}
	}
	return ""
}

func c17Case(ip net.IP, id krpc.ID, flips bool) explore.Case {
	return explore.Case{Prop: "C17", Unit: "pair", H: []string{"ip=" + hex.EncodeToString(ip), "id=" + hex.EncodeToString(id[:]), "flips=" + strconv.FormatBool(flips)}}
}

// sync-level tier (schedule explorer), present only in overlay builds (build tag verife2)
var (
	c17SyncTier   func(t *testing.T, w *explore.Worker, idx *int)
	c17SyncReplay func(t *testing.T, c explore.Case) explore.Result
)

func init() {
	runners["C17"] = func(t *testing.T, c explore.Case) (r explore.Result) {
		if strings.HasPrefix(c.Unit, "sync;") {
			if c17SyncReplay == nil {
				return explore.Result{Viol: "HARNESS: sync tier not built"}
			}
			return c17SyncReplay(t, c)
		}
		switch c.Unit {
		case "pair":
			var ip net.IP
			var id krpc.ID
			flips := false
			for _, h := range c.H {
				if v, ok := strings.CutPrefix(h, "ip="); ok {
					b, _ := hex.DecodeString(v)
					ip = b
				}
				if v, ok := strings.CutPrefix(h, "id="); ok {
					b, _ := hex.DecodeString(v)
					copy(id[:], b)
				}
				if h == "flips=true" {
					flips = true
				}
			}
			r.Viol = c17Eval(ip, id, flips)
		case "server":
			r.Viol = c17Server(t, c.H)
		}
		return
	}
}

// ip4FromMasked spreads the 20 significant bits v over the mask 0x030f3fff; fill sets the
// unmasked bits.
func ip4FromMasked(v uint32, fill bool) net.IP {
	b0 := byte(v>>18) & 0x03
	b1 := byte(v>>14) & 0x0f
	b2 := byte(v>>8) & 0x3f
	b3 := byte(v)
	if fill {
		b0 |= 0xfc
		b1 |= 0xf0
		b2 |= 0xc0
	}
	return net.IP{b0, b1, b2, b3}
}

func c17Server(t *testing.T, h []string) (viol string) {
	// h: pub=<ip> nosec=<bool> preset=<bool>
	var pub net.IP
	nosec, preset := false, false
	for _, x := range h {
		if v, ok := strings.CutPrefix(x, "pub="); ok {
			pub = net.ParseIP(v)
			if p4 := pub.To4(); p4 != nil && !strings.Contains(v, ":") {
				pub = p4
			}
		}
		nosec = nosec || x == "nosec=true"
		preset = preset || x == "preset=true"
	}
	for _, x := range h {
		if x == "conn=none" {
			// the node opens its own socket (ServerConfig.Conn == nil): a real loopback-capable UDP
			// socket, outside any bubble
			cfg := dht.NewDefaultServerConfig()
			cfg.PublicIP, cfg.NoSecurity = pub, nosec
			cfg.StartingNodes = func() ([]dht.Addr, error) { return nil, nil }
			if preset {
				cfg.NodeId = sim.InBucket(sim.Root, 7, 3)
			}
			s, err := dht.NewServer(cfg)
			if err != nil {
				return "" // no socket available here: nothing to check
			}
			defer s.Close()
			id := s.ID()
			switch {
			case preset && id != sim.InBucket(sim.Root, 7, 3):
				return fmt.Sprintf("preset-id-changed: configured node id was replaced by %x", id)
			case preset:
			case id == (krpc.ID{}):
				return "zero-own-id: server kept the zero ID"
			case !refSecure(id, pub):
				return fmt.Sprintf("own-id-insecure: generated ID %x does not verify for public IP %v (nosec=%v, socket opened by the server)", id, pub, nosec)
			}
			return ""
		}
	}
	Bubble(t, func() {
		y := NewSys(func(c *dht.ServerConfig) {
			c.PublicIP = pub
			c.NoSecurity = nosec
			if preset {
				c.NodeId = sim.InBucket(sim.Root, 7, 3)
			} else {
				c.NodeId = krpc.ID{}
			}
		})
		defer y.Close()
		id := y.S.ID()
		if preset {
			if id != sim.InBucket(sim.Root, 7, 3) {
				viol = fmt.Sprintf("preset-id-changed: configured node id was replaced by %x", id)
			}
			return
		}
		if id == (krpc.ID{}) {
			viol = "zero-own-id: server kept the zero ID"
			return
		}
		if !refSecure(id, pub) {
			viol = fmt.Sprintf("own-id-insecure: generated ID %x does not verify for public IP %v (nosec=%v)", id, pub, nosec)
		}
	})
	return
}

func TestC17(t *testing.T) {
	w := explore.NewWorker("C17")
	defer w.Finish()
	w.SetRule("IPv4: all 2^20 values of the bits under mask 0x030f3fff x 8 seeds (unmasked bits 0; all-ones on a 2^12 sub-lattice; 4-byte and v4-mapped forms), each through SecureNodeId/NodeIdSecure and compared with an independent bitwise CRC32-C reference, neighbours of the secured ID (24 single-bit flips, seed byte changes) compared on a sub-lattice; IPv6: the 36 masked bits one and two at a time x 8 seeds x unmasked fill; ID lattice; BEP 42 published vectors; local-network boundaries; server self-ID over configurations. distinct_nontrivial counts distinct (ip, id) pairs that reached the oracle")
	idx := 0
	var base krpc.ID
	for i := range base {
		base[i] = byte(0xa5 ^ i*7)
	}
	// ---- IPv4 exhaustive, 64 chunks
	const chunks = 64
	for ch := 0; ch < chunks; ch++ {
		i := idx
		idx++
		if !w.Mine(i) {
			continue
		}
		w.BeginUnit(i, fmt.Sprintf("ipv4-chunk-%d", ch))
		lo, hi := uint32(ch)*(1<<20/chunks), uint32(ch+1)*(1<<20/chunks)
		var n int64
		for v := lo; v < hi; v++ {
			for r := 0; r < 8; r++ {
				id := base
				id[19] = id[19]&^7 | byte(r)
				id[18] = byte(v)
				ip := ip4FromMasked(v, false)
				flips := v%16 == 0 || w.Thorough()
				if vi := c17Eval(ip, id, flips); vi != "" {
					w.Violate(c17Case(ip, id, flips), vi)
				}
				n++
				if v%256 == uint32(r) { // 2^12 x 8 sub-lattice: unmasked bits set, and v4-mapped form
					ipf := ip4FromMasked(v, true)
					if vi := c17Eval(ipf, id, false); vi != "" {
						w.Violate(c17Case(ipf, id, false), vi)
					}
					ip16 := ip.To16()
					if vi := c17Eval(ip16, id, false); vi != "" {
						w.Violate(c17Case(ip16, id, false), vi)
					}
					// the unmasked bits and the byte form must not matter
					a, b, c := id, id, id
					dht.SecureNodeId(&a, ip)
					dht.SecureNodeId(&b, ipf)
					dht.SecureNodeId(&c, ip16)
					if a != b || a != c {
						w.Violate(c17Case(ipf, id, false), fmt.Sprintf("unmasked-bits-matter: %v / %v / 16-byte form give %x %x %x", ip, ipf, a[:3], b[:3], c[:3]))
					}
					n += 3
				}
			}
		}
		w.Count(n, n)
		if ch == 0 {
			w.Sample(c17Case(ip4FromMasked(lo+5, false), base, true))
		}
		w.Outcome("ipv4-chunk-ok", 1)
		w.Flush(false)
	}
	// ---- IPv6 lattice
	if i := idx; w.Mine(i) {
		w.BeginUnit(i, "ipv6-lattice")
		var bits [][2]int // (byte, bit)
		m := []byte{0x01, 0x03, 0x07, 0x0f, 0x1f, 0x3f, 0x7f, 0xff}
		for by, mm := range m {
			for b := 0; b < 8; b++ {
				if mm>>uint(b)&1 == 1 {
					bits = append(bits, [2]int{by, b})
				}
			}
		}
		var n int64
		eval := func(set [][2]int) {
			for r := 0; r < 8; r++ {
				for _, fill := range []bool{false, true} {
					ip := make(net.IP, 16)
					ip[0] = 0x20 // keep it a global unicast address when not filled
					if fill {
						for k := range ip {
							ip[k] = 0xff
						}
						for k, mm := range m {
							ip[k] = ^mm
						}
						ip[0] = 0x2e // 0010 1110: unmasked bits set, still not link-local/loopback
					}
					for _, bb := range set {
						ip[bb[0]] |= 1 << uint(bb[1])
					}
					id := base
					id[19] = id[19]&^7 | byte(r)
					if vi := c17Eval(ip, id, true); vi != "" {
						w.Violate(c17Case(ip, id, true), vi)
					}
					n++
				}
			}
		}
		eval(nil)
		for a := range bits {
			eval([][2]int{bits[a]})
			for b := a + 1; b < len(bits); b++ {
				eval([][2]int{bits[a], bits[b]})
			}
		}
		w.Count(n, n)
		w.Bound("ipv6_masked_bits", len(bits))
		w.Outcome("ipv6-lattice-ok", 1)
	}
	idx++
	// ---- ID lattice x a few IPs, published vectors, local networks
	if i := idx; w.Mine(i) {
		w.BeginUnit(i, "ids-vectors-local")
		var n int64
		ips := []net.IP{{124, 31, 75, 21}, {8, 8, 8, 8}, net.ParseIP("2001:db8::77"), net.ParseIP("::ffff:9.9.9.9")}
		var ids []krpc.ID
		ids = append(ids, krpc.ID{})
		var ones krpc.ID
		for k := range ones {
			ones[k] = 0xff
		}
		ids = append(ids, ones)
		for b := 0; b < 160; b++ {
			var x krpc.ID
			x[b/8] = 1 << (7 - uint(b%8))
			ids = append(ids, x)
			y := ones
			y[b/8] ^= 1 << (7 - uint(b%8))
			ids = append(ids, y)
		}
		for _, ip := range ips {
			for _, id := range ids {
				if vi := c17Eval(ip, id, true); vi != "" {
					w.Violate(c17Case(ip, id, true), vi)
				}
				n++
			}
		}
		vectors := []struct {
			ip  string
			r   byte
			pre string
		}{{"124.31.75.21", 1, "5fbfb8"}, {"21.75.31.124", 86, "5a3ce8"}, {"65.23.51.170", 22, "a5d430"}, {"84.124.73.14", 65, "1b0320"}, {"43.213.53.83", 90, "e56f68"}}
		for _, v := range vectors {
			id := base
			id[19] = v.r
			ip := net.ParseIP(v.ip).To4()
			dht.SecureNodeId(&id, ip)
			got := hex.EncodeToString([]byte{id[0], id[1], id[2] & 0xf8})
			if got != v.pre {
				w.Violate(c17Case(ip, id, false), fmt.Sprintf("bep42-vector: %s seed %d gives prefix %s, published %s", v.ip, v.r, got, v.pre))
			}
			n++
		}
		// local networks: every ID accepted inside, reference outside
		type rng struct{ in, out []string }
		locals := []rng{
			{[]string{"10.0.0.0", "10.255.255.255"}, []string{"9.255.255.255", "11.0.0.0"}},
			{[]string{"172.16.0.0", "172.31.255.255"}, []string{"172.15.255.255", "172.32.0.0"}},
			{[]string{"192.168.0.0", "192.168.255.255"}, []string{"192.167.255.255", "192.169.0.0"}},
			{[]string{"169.254.0.0", "169.254.255.255"}, []string{"169.253.255.255", "169.255.0.0"}},
			{[]string{"127.0.0.0", "127.255.255.255"}, []string{"126.255.255.255", "128.0.0.0"}},
			{[]string{"fe80::", "febf:ffff:ffff:ffff:ffff:ffff:ffff:ffff", "::1"}, []string{"fe7f:ffff:ffff:ffff:ffff:ffff:ffff:ffff", "fec0::", "::2", "::"}},
		}
		for _, l := range locals {
			for _, s := range l.in {
				ip := net.ParseIP(s)
				for _, id := range ids[:40] {
					if !dht.NodeIdSecure(id, ip) {
						w.Violate(c17Case(ip, id, false), fmt.Sprintf("local-not-exempt: NodeIdSecure(%x, %s) = false", id, s))
					}
					if ip4 := ip.To4(); ip4 != nil && !dht.NodeIdSecure(id, ip4) {
						w.Violate(c17Case(ip4, id, false), fmt.Sprintf("local-not-exempt: NodeIdSecure(%x, %s as 4 bytes) = false", id, s))
					}
					n++
				}
			}
			for _, s := range l.out {
				ip := net.ParseIP(s)
				if p4 := ip.To4(); p4 != nil {
					ip = p4
				}
				for _, id := range ids[:40] {
					if vi := c17Eval(ip, id, false); vi != "" {
						w.Violate(c17Case(ip, id, false), vi)
					}
					n++
				}
			}
		}
		w.Count(n, n)
		w.Outcome("ids-vectors-local-ok", 1)
	}
	idx++
	// ---- the node's own ID
	for _, pub := range []string{"124.31.75.21", "2001:db8::5", "8.8.4.4", "::ffff:21.75.31.124"} {
		for _, nosec := range []bool{false, true} {
			for _, preset := range []bool{false, true} {
				for _, conn := range []string{"fake", "none"} {
					i := idx
					idx++
					if !w.Mine(i) {
						continue
					}
					c := explore.Case{Prop: "C17", Unit: "server", H: []string{"pub=" + pub, fmt.Sprintf("nosec=%v", nosec), fmt.Sprintf("preset=%v", preset), "conn=" + conn}}
					w.BeginUnit(i, "server "+strings.Join(c.H, " "))
					w.Journal(c)
					for rep := 0; rep < 4; rep++ { // the generated ID is random when not deterministic
						v := c17Server(t, c.H)
						w.Record(c, explore.Result{Viol: v, Outcome: "server-id", Steps: 1})
						w.Count(0, 1)
					}
				}
			}
		}
	}
	if c17SyncTier != nil {
		c17SyncTier(t, w, &idx)
	}
}
