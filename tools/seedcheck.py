#!/usr/bin/env python3
"""Run our checks against the seeded changes under /verif/seeded/ (each applied to a scratch worktree
of /repo's HEAD; /repo itself is not touched) and record the result in each meta.json.

usage: tools/seedcheck.py [glob] [--tier quick|thorough] [--also ID,ID]
"""
import fnmatch, json, os, shutil, subprocess, sys, tempfile

ENV = dict(os.environ, GOFLAGS="-mod=mod", GOPROXY="off", GOSUMDB="off", GOTOOLCHAIN="local")


def sh(cmd, cwd):
    r = subprocess.run(cmd, cwd=cwd, env=ENV, stdout=subprocess.PIPE, stderr=subprocess.STDOUT, text=True)
    return r.returncode, r.stdout


def main():
    a = sys.argv[1:]
    pat, tier, also = "*", "quick", []
    i = 0
    while i < len(a):
        if a[i] == "--tier":
            tier = a[i + 1]; i += 2
        elif a[i] == "--also":
            also = a[i + 1].split(","); i += 2
        else:
            pat = a[i]; i += 1
    manifest = json.load(open("/verif/MANIFEST.json"))
    claimed = {c["property_id"] for c in manifest["checks"]}
    for name in sorted(os.listdir("/verif/seeded")):
        d = os.path.join("/verif/seeded", name)
        mp = os.path.join(d, "meta.json")
        if not fnmatch.fnmatch(name, pat) or not os.path.exists(mp):
            continue
        meta = json.load(open(mp))
        checks = [meta["property"]] + [x for x in also if x != meta["property"]]
        wt = tempfile.mkdtemp(prefix="seedc-", dir="/tmp")
        os.rmdir(wt)
        rc, o = sh(["git", "-C", "/repo", "worktree", "add", "-q", "--detach", wt, "HEAD"], "/repo")
        assert rc == 0, o
        try:
            rc, o = sh(["git", "apply", "--3way", os.path.join(d, "patch.diff")], wt)
            if rc != 0:
                print(name, "PATCH-DOES-NOT-APPLY", o[-200:].replace("\n", " "))
                continue
            sh(["git", "reset", "-q"], wt)
            head = sh(["git", "rev-parse", "--short", "HEAD"], wt)[1].strip()
            det = meta.get("checks") or {}
            for c in checks:
                if c not in claimed:
                    det[c] = {"rc": None, "detected": None, "first": "check not built / not claimed yet"}
                    continue
                env = dict(ENV, VERIF_REPO=wt, VERIF_REPLAYS_DIR="/verif/.build/mut-replays", VERIF_EVIDENCE_DIR="/verif/.build/mut-evidence")
                r = subprocess.run(["./run", c, tier], cwd="/verif", env=env, stdout=subprocess.PIPE, stderr=subprocess.STDOUT, text=True)
                lines = [l for l in r.stdout.splitlines() if l.startswith("  ") and "replayed" in l]
                det[c] = {"rc": r.returncode, "detected": r.returncode == 1, "tier": tier, "repo_head": head,
                          "first": (lines[0].strip()[:500] if lines else (r.stdout[-300:] if r.returncode not in (0, 1) else ""))}
                meta.setdefault("ran", []).append("./run %s %s against a scratch worktree of HEAD %s with the change applied: rc=%d" % (c, tier, head, r.returncode))
                print(name, c, "rc=%d" % r.returncode, "DETECTED" if r.returncode == 1 else "missed" if r.returncode == 0 else "ERROR", "|", det[c]["first"][:150], flush=True)
            meta["checks"] = det
            json.dump(meta, open(mp, "w"), indent=1)
        finally:
            sh(["git", "-C", "/repo", "worktree", "remove", "--force", wt], "/repo")
            shutil.rmtree(wt, ignore_errors=True)


if __name__ == "__main__":
    main()
