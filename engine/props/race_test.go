//go:build verifrace

package props

import (
	"context"
	"fmt"
	"net"
	"sync"
	"testing"
	"time"

	"github.com/anacrolix/dht/v2"
	"github.com/anacrolix/dht/v2/bep44"
	"github.com/anacrolix/dht/v2/krpc"
	"github.com/anacrolix/dht/v2/traversal"
	"github.com/anacrolix/dht/v2/types"

	"github.com/anacrolix/dht/v2/int160"
	k_nearest_nodes "github.com/anacrolix/dht/v2/k-nearest-nodes"
	"github.com/anacrolix/generics"

	"verif/sim"
)

type elemR = k_nearest_nodes.Elem

// R — free-running race pass (assumption guard for E2, not a deciding step). The same kind of
// scenario bodies as the schedule explorer, but without scheduler, overlay or bubble, built with
// -race: a cooperative scheduler's hand-offs are happens-before edges and would blind the detector.

func rID(b byte) (id krpc.ID) { id[19] = b; return }

func rAddr(n int) krpc.NodeAddr {
	return krpc.NodeAddr{IP: []byte{10, 0, 0, byte(n)}, Port: 1000 + n}
}

func TestRaceTraversal(t *testing.T) {
	graph := map[int][]int{9: {3, 4}, 3: {2, 5}, 4: {2, 1}, 2: {1}, 1: {}, 5: {1, 2}}
	for iter := 0; iter < 300; iter++ {
		var mu sync.Mutex
		calls := 0
		op := traversal.Start(traversal.OperationInput{
			K: 2, Alpha: 1 + iter%3,
			DoQuery: func(ctx context.Context, a krpc.NodeAddr) (res traversal.QueryResult) {
				mu.Lock()
				calls++
				mu.Unlock()
				n := int(a.IP[3])
				if iter%7 == 3 {
					select {
					case <-ctx.Done():
					case <-time.After(time.Duration(n) * 50 * time.Microsecond):
					}
				}
				res.ResponseFrom = &krpc.NodeInfo{ID: rID(byte(n)), Addr: a}
				res.ClosestData = fmt.Sprint("t", n)
				for _, m := range graph[n] {
					res.Nodes = append(res.Nodes, krpc.NodeInfo{ID: rID(byte(m)), Addr: rAddr(m)})
				}
				return
			},
		})
		var wg sync.WaitGroup
		wg.Add(2)
		go func() {
			defer wg.Done()
			op.AddNodes([]types.AddrMaybeId{{Addr: rAddr(9).ToNodeAddrPort()}})
			op.AddNodes([]types.AddrMaybeId{{Addr: rAddr(5).ToNodeAddrPort(), Id: generics.Some(int160.FromByteArray(rID(5)))}})
		}()
		go func() {
			defer wg.Done()
			if iter%2 == 0 {
				select {
				case <-op.Stalled():
				case <-time.After(time.Second):
				}
			}
			op.Stop()
			op.Stop()
		}()
		wg.Wait()
		<-op.Stopped()
		n := 0
		op.Closest().Range(func(e elemR) { n++ })
		_ = op.Stats()
		if n > 2 {
			t.Fatalf("closest holds %d", n)
		}
	}
}

func TestRaceWrapper(t *testing.T) {
	for iter := 0; iter < 300; iter++ {
		w := bep44.NewWrapper(bep44.NewMemory(), time.Hour)
		target := bep44.Target(mutableTarget(pubOf(bepKey1), nil))
		var wg sync.WaitGroup
		for i := 0; i < 4; i++ {
			i := i
			wg.Add(1)
			go func() {
				defer wg.Done()
				w.Put(c13Item(int64(1+i%3), 0, fmt.Sprint("v", i)))
				w.Get(target)
			}()
		}
		wg.Wait()
	}
}

// TestRaceC15: several goroutines decode and re-encode different datagrams with compact lists at
// the same time. Besides feeding the race detector it compares each result with the sequential one.
func TestRaceC15(t *testing.T) {
	exp, v := c15ConcExpected()
	if v != "" {
		t.Fatal(v)
	}
	ds := c15ConcDatagrams()
	var wg sync.WaitGroup
	for g := 0; g < 6; g++ {
		g := g
		wg.Add(1)
		go func() {
			defer wg.Done()
			for i := 0; i < 400; i++ {
				k := (g + i) % len(ds)
				if got := c15ConcJob(ds[k]); got != exp[k] {
					t.Errorf("concurrent decode of datagram %d differs from the sequential result:\n got %s\nwant %s", k, got, exp[k])
					return
				}
			}
		}()
	}
	wg.Wait()
}

// TestRaceC17: the three callers of the C17 sync tier, free-running.
func TestRaceC17(t *testing.T) {
	ips := []net.IP{{124, 31, 75, 21}, {21, 75, 31, 124}, net.ParseIP("2001:db8:1:2:3:4:5:6")}
	var wg sync.WaitGroup
	for g := range ips {
		g := g
		wg.Add(1)
		go func() {
			defer wg.Done()
			for i := 0; i < 2000; i++ {
				var id krpc.ID
				id[5], id[19] = byte(i), byte(i+g)
				dht.SecureNodeId(&id, ips[g])
				if !dht.NodeIdSecure(id, ips[g]) {
					t.Errorf("caller %d: secured ID does not verify", g)
					return
				}
				dht.NodeIdSecure(id, ips[(g+1)%3])
			}
		}()
	}
	wg.Wait()
}

// TestRaceServer: a real Server on the fake socket, free-running (no bubble, no scheduler): inbound
// queries of every method from several sources, matched and unmatched responses, outbound queries
// that are answered, time out or are cancelled, public API calls, blocklist installation and
// finally Close, all at the same time. Feeds the race-directed stage of the Server-level sync tiers.
func TestRaceServer(t *testing.T) {
	for iter := 0; iter < 12; iter++ {
		y := NewSys(WithPeerStore(), func(c *dht.ServerConfig) {
			c.QueryResendDelay = func() time.Duration { return 3 * time.Millisecond }
		})
		stop := make(chan struct{})
		var wg, bg sync.WaitGroup
		// responder: answers every query the server writes to 61.x addresses
		bg.Add(1)
		go func() {
			defer bg.Done()
			seen := 0
			for {
				select {
				case <-stop:
					return
				default:
				}
				ws := y.Conn.WritesSince(seen)
				seen += len(ws)
				for _, o := range DecodeWrites(ws) {
					if o.Y() == "q" && o.To.IP[0] == 61 && o.To.Port != 6199 {
						y.Conn.Inject(o.To, sim.Reply(o.T(), sim.M{"id": sim.IDStr(sim.InBucket(sim.Root, 3, o.To.Port%200))}))
					}
				}
				time.Sleep(200 * time.Microsecond)
			}
		}()
		for g := 0; g < 3; g++ {
			g := g
			wg.Add(1)
			go func() {
				defer wg.Done()
				src := sim.UDP4(70, 1, byte(g), 1, 7000+g)
				id := sim.IDStr(sim.InBucket(sim.Root, g, 9+g))
				for i := 0; i < 25; i++ {
					tid := fmt.Sprintf("%d.%d", g, i)
					var b []byte
					switch i % 6 {
					case 0:
						b = sim.Query(tid, "ping", sim.M{"id": id})
					case 1:
						b = sim.Query(tid, "find_node", sim.M{"id": id, "target": sim.IDStr(sim.Root)})
					case 2:
						b = sim.Query(tid, "get_peers", sim.M{"id": id, "info_hash": sim.IDStr(ihA)})
					case 3:
						b = sim.Query(tid, "get", sim.M{"id": id, "target": sim.IDStr(ihA)})
					case 4:
						b = sim.Query(tid, "announce_peer", sim.M{"id": id, "info_hash": sim.IDStr(ihA), "port": 1, "token": "x"})
					case 5:
						b = sim.Reply(tid, sim.M{"id": id})
					}
					y.Conn.Inject(src, b)
				}
			}()
		}
		for g := 0; g < 2; g++ {
			g := g
			wg.Add(1)
			go func() {
				defer wg.Done()
				for i := 0; i < 6; i++ {
					ctx, cancel := context.WithTimeout(context.Background(), time.Duration(1+i%3)*4*time.Millisecond)
					port := 6111 + g
					if i%3 == 2 {
						port = 6199 // nobody answers
					}
					y.S.Query(ctx, dht.NewAddr(sim.UDP4(61, 1, 1, byte(1+g), port)), "ping", dht.QueryInput{NumTries: 2})
					cancel()
				}
			}()
		}
		wg.Add(1)
		go func() {
			defer wg.Done()
			for i := 0; i < 30; i++ {
				y.S.Stats()
				y.S.NumNodes()
				y.S.Nodes()
				y.S.ID()
				y.S.AddNode(krpc.NodeInfo{ID: sim.InBucket(sim.Root, 5, i), Addr: krpc.NodeAddr{IP: net.IP{80, 1, 1, byte(i)}, Port: 8000 + i}})
				if i == 15 {
					y.S.SetIPBlockList(nil)
				}
			}
		}()
		wg.Wait()
		y.S.Close()
		close(stop)
		bg.Wait()
	}
}
