package props

import (
	"bytes"
	"fmt"
	"net"
	"strings"
	"testing"
	"testing/synctest"
	"time"

	"github.com/anacrolix/dht/v2"

	"verif/explore"
	"verif/sim"
)

// C08 — replies go to the asker, echo t, right KRPC form, exactly one per query, none for
// non-queries. Oracle = reference responder written from the property text / BEP 5.

var c08Methods = []string{"ping", "find_node", "get_peers", "get", "announce_peer", "put", "sample_infohashes", "", "vote"}

func c08Shapes(method string) []string {
	switch method {
	case "announce_peer":
		return []string{"noa", "emptya", "idonly", "notoken", "badtoken", "tokened"}
	case "put":
		// tokened-*: correctly tokened puts that the BEP 44 store accepts or rejects (one datagram either way)
		return []string{"noa", "emptya", "idonly", "notoken", "badtoken", "tokened", "tokened-mutable", "tokened-stale", "tokened-casbad", "tokened-badsig", "tokened-toobig", "tokened-saltbig", "tokened-noseq"}
	}
	return []string{"noa", "emptya", "idonly", "full"}
}

type c08Expect struct {
	Count int    // 0 or 1
	Kind  string // "r", "e203", "e204", "r-or-e" (when Count==1)
}

func isWrite(m string) bool { return m == "announce_peer" || m == "put" }
func isKnown(m string) bool {
	switch m {
	case "ping", "find_node", "get_peers", "get", "announce_peer", "put":
		return true
	}
	return false
}

// reference responder
func c08Reference(cfg, method, shape string) c08Expect {
	if cfg == "passive" || cfg == "veto" {
		return c08Expect{}
	}
	if !isKnown(method) {
		return c08Expect{1, "e204"}
	}
	if method == "ping" {
		return c08Expect{1, "r"}
	}
	if shape == "noa" {
		return c08Expect{1, "e203"}
	}
	if isWrite(method) {
		if strings.HasPrefix(shape, "tokened") {
			return c08Expect{1, "r-or-e"}
		}
		return c08Expect{} // no valid token: silence (C10)
	}
	return c08Expect{1, "r"}
}

// checkReaction validates every datagram written in reaction to one query from src with tid.
func c08CheckForm(o OutMsg, src *net.UDPAddr, tid string) string {
	if o.To == nil || o.To.String() != src.String() {
		return fmt.Sprintf("wrong-destination: reaction to a query from %v was sent to %v", src, o.To)
	}
	if o.Err != nil || o.M == nil {
		return fmt.Sprintf("malformed-reply: %q does not decode: %v", o.Raw, o.Err)
	}
	t, ok := sim.Str(o.M, "t")
	if !ok || t != tid {
		return fmt.Sprintf("tid-not-echoed: query t=%q, reply t=%q", tid, t)
	}
	switch o.Y() {
	case "r":
		r := o.R()
		if r == nil {
			return "malformed-reply: y=r without r dict"
		}
		if id, _ := sim.Str(r, "id"); id != sim.IDStr(sim.Root) {
			return fmt.Sprintf("wrong-own-id: r.id = %x", id)
		}
		ip, ok := sim.Str(o.M, "ip")
		if !ok {
			return "missing-ip: response carries no ip field"
		}
		want4 := src.IP.To4()
		okForm := false
		if len(src.IP) == 4 || want4 != nil && len(ip) == 6 {
			okForm = ip == sim.Compact(want4, src.Port)
			if len(src.IP) == 4 && len(ip) != 6 {
				okForm = false
			}
		}
		if len(src.IP) == 16 && len(ip) == 18 {
			okForm = ip == sim.Compact(src.IP.To16(), src.Port)
		}
		if !okForm {
			return fmt.Sprintf("wrong-ip-field: requester %v, ip field %x", src, ip)
		}
		if _, has := o.M["e"]; has {
			return "malformed-reply: response with e key"
		}
	case "e":
		l, ok := o.M["e"].([]interface{})
		if !ok || len(l) != 2 {
			return fmt.Sprintf("malformed-error: e = %v", o.M["e"])
		}
		if _, ok := l[0].(int64); !ok {
			return "malformed-error: code not an integer"
		}
		if _, ok := l[1].(string); !ok {
			return "malformed-error: message not a string"
		}
	default:
		return fmt.Sprintf("wrong-type: reaction with y=%q", o.Y())
	}
	return ""
}

func c08CheckKind(o OutMsg, kind string) string {
	switch kind {
	case "r":
		if o.Y() != "r" {
			return fmt.Sprintf("wrong-form: expected a response, got %s", o.Brief())
		}
	case "e203", "e204":
		want := int64(203)
		if kind == "e204" {
			want = 204
		}
		if o.Y() != "e" || o.ECode() != want {
			return fmt.Sprintf("wrong-form: expected error %d, got %s", want, o.Brief())
		}
	case "r-or-e":
	}
	return ""
}

type c08Sys struct {
	*Sys
	cfg    string
	budget int // lim1 only: remaining send budget (-1 = unlimited)
}

type c08Query struct {
	method, shape, tidName, srcName string
}

func parseC08Query(l string) (q c08Query, ok bool) {
	f := strings.Split(l, ":")
	if len(f) != 5 || f[0] != "q" {
		return q, false
	}
	return c08Query{f[1], f[2], f[3], f[4]}, true
}

func (q c08Query) letter() string {
	return "q:" + q.method + ":" + q.shape + ":" + q.tidName + ":" + q.srcName
}

// build returns the datagram; for tokened shapes the token must already be known.
func (q c08Query) build(token string) []byte {
	tid := tidForms[q.tidName]
	tok := token
	if q.shape == "badtoken" {
		tok = "not-a-token-at-all!!"
	}
	m := sim.M{"t": tid, "y": "q", "q": q.method}
	argShape := q.shape
	if argShape == "tokened" || argShape == "badtoken" {
		argShape = "full"
	}
	if strings.HasPrefix(argShape, "tokened-") {
		pub := pubOf(bepKey1)
		a := sim.M{"id": sim.IDStr(peerID), "token": tok, "k": string(pub[:])}
		v, seq, salt := "x", int64(1), []byte(nil)
		switch argShape {
		case "tokened-stale":
			seq = 0
		case "tokened-casbad":
			seq = 2
			a["cas"] = 9
		case "tokened-toobig":
			v = strings.Repeat("v", 1001)
		case "tokened-saltbig":
			salt = []byte(strings.Repeat("s", 65))
		}
		a["v"], a["seq"] = v, seq
		if salt != nil {
			a["salt"] = string(salt)
		}
		a["sig"] = string(refSign(bepKey1, salt, seq, sim.Enc(v)))
		switch argShape {
		case "tokened-badsig":
			a["sig"] = strings.Repeat("\x01", 64)
		case "tokened-noseq":
			delete(a, "seq")
		}
		m["a"] = a
		return sim.Enc(m)
	}
	if a := queryArgs(q.method, argShape, tok); a != nil {
		m["a"] = a
	}
	return sim.Enc(m)
}

// consume applies the reference budget rule for the lim1 configuration.
func (y *c08Sys) allow(e c08Expect) c08Expect {
	if y.budget < 0 || e.Count == 0 {
		return e
	}
	if y.budget == 0 {
		return c08Expect{}
	}
	y.budget--
	return e
}

func (y *c08Sys) checkOne(q c08Query, ws []*sim.Write) string {
	src := sources[q.srcName]
	tid := tidForms[q.tidName]
	exp := y.allow(c08Reference(y.cfg, q.method, q.shape))
	outs := DecodeWrites(ws)
	for _, o := range outs {
		if v := c08CheckForm(o, src, tid); v != "" {
			return v + " [" + q.letter() + "]"
		}
	}
	if len(outs) != exp.Count {
		return fmt.Sprintf("wrong-count: %s in config %s produced %d datagrams (%s), reference says %d", q.letter(), y.cfg, len(outs), Briefs(ws), exp.Count)
	}
	if exp.Count == 1 {
		if v := c08CheckKind(outs[0], exp.Kind); v != "" {
			return v + " [" + q.letter() + "]"
		}
	}
	return ""
}

// token pre-step: a get_peers/get from the same source, itself checked as a query.
func (y *c08Sys) tokenFor(q c08Query) (tok string, viol string) {
	src := sources[q.srcName]
	via, m := "get", "get"
	if y.Cfg.PeerStore != nil && q.method == "announce_peer" {
		via, m = "get_peers", "get_peers"
	}
	args := queryArgs(m, "full", "")
	b := sim.Query("tokq", m, args)
	ws, _ := y.Deliver(src, b)
	exp := y.allow(c08Reference(y.cfg, m, "full"))
	outs := DecodeWrites(ws)
	if len(outs) != exp.Count {
		return "", fmt.Sprintf("wrong-count: token fetch %s produced %d datagrams, reference %d", via, len(outs), exp.Count)
	}
	for _, o := range outs {
		if v := c08CheckForm(o, src, "tokq"); v != "" {
			return "", v
		}
		tok, _ = sim.Str(o.R(), "token")
	}
	return tok, ""
}

// sync-level tier (schedule explorer), present only in overlay builds (build tag verife2)
var (
	c08SyncTier   func(t *testing.T, w *explore.Worker, idx *int)
	c08SyncReplay func(t *testing.T, c explore.Case) explore.Result
)

func runC08(t *testing.T, c explore.Case) (res explore.Result) {
	if strings.HasPrefix(c.Unit, "sync;") {
		if c08SyncReplay == nil {
			return explore.Result{Viol: "HARNESS: sync tier not built"}
		}
		return c08SyncReplay(t, c)
	}
	cfgName := strings.TrimPrefix(c.Unit, "cfg=")
	cfg, ok := dgConfig(cfgName)
	if !ok {
		res.Viol = "HARNESS: unknown config " + cfgName
		return
	}
	var outcome []string
	p := Bubble(t, func() {
		y := &c08Sys{Sys: NewSys(cfg.Opts...), cfg: cfgName, budget: -1}
		if cfgName == "lim1" {
			y.budget = 1
		}
		defer y.Close()
		for _, l := range c.H {
			res.Steps++
			switch {
			case strings.HasPrefix(l, "q:"):
				q, ok := parseC08Query(l)
				if !ok {
					res.Viol = "HARNESS: bad letter " + l
					return
				}
				tok := ""
				if strings.HasPrefix(q.shape, "tokened") {
					var v string
					tok, v = y.tokenFor(q)
					if v != "" {
						res.Viol = v
						return
					}
				}
				ws, delivered := y.Deliver(sources[q.srcName], q.build(tok))
				if !delivered {
					res.Viol = "not-consumed: serve loop did not take the datagram"
					return
				}
				if strings.HasPrefix(q.shape, "tokened") && tok == "" {
					// no token could be obtained (passive/veto/limited): then the write is untokened
					q.shape = "notoken"
				}
				if v := y.checkOne(q, ws); v != "" {
					res.Viol = v
					return
				}
				outcome = append(outcome, Briefs(ws))
			case strings.HasPrefix(l, "pair:"):
				parts := strings.Split(strings.TrimPrefix(l, "pair:"), "+")
				q1, ok1 := parseC08Query(parts[0])
				q2, ok2 := parseC08Query(parts[1])
				if !ok1 || !ok2 {
					res.Viol = "HARNESS: bad letter " + l
					return
				}
				i1 := y.Conn.Inject(sources[q1.srcName], q1.build(""))
				i2 := y.Conn.Inject(sources[q2.srcName], q2.build(""))
				synctest.Wait()
				if !i1.Delivered() || !i2.Delivered() {
					res.Viol = "not-consumed: serve loop did not take both datagrams"
					return
				}
				ws := y.Take()
				// attribute by (destination, t)
				var w1, w2, rest []*sim.Write
				for _, w := range ws {
					o := DecodeWrites([]*sim.Write{w})[0]
					switch {
					case w.To.String() == sources[q1.srcName].String() && o.T() == tidForms[q1.tidName]:
						w1 = append(w1, w)
					case w.To.String() == sources[q2.srcName].String() && o.T() == tidForms[q2.tidName]:
						w2 = append(w2, w)
					default:
						rest = append(rest, w)
					}
				}
				if len(rest) > 0 {
					res.Viol = fmt.Sprintf("stray-datagram: %s belongs to neither query of %s", Briefs(rest), l)
					return
				}
				if y.budget >= 0 {
					// under a one-token budget either reply may win
					tot := len(w1) + len(w2)
					e1, e2 := c08Reference(y.cfg, q1.method, q1.shape), c08Reference(y.cfg, q2.method, q2.shape)
					max := e1.Count + e2.Count
					if max > y.budget {
						max = y.budget
					}
					if tot != max {
						res.Viol = fmt.Sprintf("wrong-count: %s under budget %d produced %d datagrams", l, y.budget, tot)
						return
					}
					y.budget -= tot
				} else {
					if v := y.checkOne(q1, w1); v != "" {
						res.Viol = v
						return
					}
					if v := y.checkOne(q2, w2); v != "" {
						res.Viol = v
						return
					}
				}
				outcome = append(outcome, Briefs(ws))
			case strings.HasPrefix(l, "n:"): // non-query message: n:<y>:<matched|unmatched>:<src>
				f := strings.Split(l, ":")
				src := sources[f[3]]
				tid := "zzunk"
				var done chan dht.QueryResult
				if f[2] == "matched" {
					done = make(chan dht.QueryResult, 1)
					go func() { done <- y.S.Ping(src) }()
					synctest.Wait()
					if y.budget > 0 {
						y.budget-- // our own ping is a rate-limited send
					}
					for _, o := range DecodeWrites(y.Take()) {
						if o.Y() == "q" {
							tid = o.T()
						}
					}
				}
				m := sim.M{"t": tid}
				switch f[1] {
				case "r":
					m["y"] = "r"
					m["r"] = sim.M{"id": sim.IDStr(peerID)}
				case "e":
					m["y"] = "e"
					m["e"] = []interface{}{201, "x"}
				case "zz":
					m["y"] = "zz"
					m["r"] = sim.M{"id": sim.IDStr(peerID)}
				case "none":
					m["r"] = sim.M{"id": sim.IDStr(peerID)}
				case "rq": // a response that also carries query keys
					m["y"] = "r"
					m["q"] = "ping"
					m["a"] = sim.M{"id": sim.IDStr(peerID)}
					m["r"] = sim.M{"id": sim.IDStr(peerID)}
				case "qsame": // a *query* from that address that happens to carry the pending query's t
					m["y"] = "q"
					m["q"] = "ping"
					m["a"] = sim.M{"id": sim.IDStr(peerID)}
					ws, _ := y.Deliver(src, sim.Enc(m))
					exp := y.allow(c08Reference(y.cfg, "ping", "full"))
					outs := DecodeWrites(ws)
					for _, o := range outs {
						if v := c08CheckForm(o, src, tid); v != "" {
							res.Viol = v + " [" + l + "]"
							return
						}
					}
					if len(outs) != exp.Count {
						res.Viol = fmt.Sprintf("wrong-count: %s (a ping whose t equals that of our own pending query to the sender) in config %s produced %d datagrams (%s), reference says %d", l, y.cfg, len(outs), Briefs(ws), exp.Count)
						return
					}
					if done != nil {
						select {
						case r := <-done:
							if r.Err == nil {
								res.Viol = "completed-by-query: our pending ping was completed by an inbound *query* carrying its t"
								return
							}
						default:
						}
					}
					outcome = append(outcome, "qsame")
					time.Sleep(5 * time.Second) // let our own ping time out before the bubble ends
					synctest.Wait()
					y.Take()
					continue
				}
				ws, _ := y.Deliver(src, sim.Enc(m))
				if len(ws) != 0 {
					res.Viol = fmt.Sprintf("reply-to-non-query: %s caused %s", l, Briefs(ws))
					return
				}
				outcome = append(outcome, "silent")
			default:
				res.Viol = "HARNESS: bad letter " + l
				return
			}
		}
	})
	if p != "" && res.Viol == "" {
		res.Viol = "panic: " + p
	}
	res.Outcome = strings.Join(outcome, " / ")
	if len(res.Outcome) > 80 {
		res.Outcome = res.Outcome[:80]
	}
	_ = bytes.Equal
	return
}

func init() { runners["C08"] = runC08 }

func c08Representatives() []string {
	return []string{
		"q:ping:full:aa:v4", "q:ping:noa:a:v6", "q:find_node:full:nul:v4", "q:find_node:noa:hi:mapped",
		"q:get_peers:full:t64:v6", "q:get:full:empty:v4", "q:get:noa:aa:v4", "q:announce_peer:tokened:aa:v4",
		"q:announce_peer:badtoken:a:v4", "q:put:tokened:hi:v6", "q:vote:full:t300:v4", "q::noa:aa:mapped",
		"q:put:tokened-mutable:aa:v4", "q:put:tokened-stale:a:v4", "q:put:tokened-casbad:aa:v6", "q:put:tokened-badsig:hi:v4",
	}
}

func TestC08(t *testing.T) {
	w := explore.NewWorker("C08")
	defer w.Finish()
	w.SetRule("product of 9 methods x argument shapes (no a / empty a / id only / full / no token / bad token / validly tokened) x 7 transaction-id forms x 3 source forms (IPv4, IPv6, v4-mapped) x 6 configurations as single queries; non-query messages (r, e, unknown y, no y, r with query keys; matched to a pending query or not); all ordered pairs of 12 representative queries delivered back-to-back without waiting and in sequence; every written datagram is decoded with a generic bencode decoder and compared with a reference responder; sync tier: 4 scenarios of three queries arriving concurrently (same t from three sources, two t from one source, error / silence mixes), all interleavings of the serve loop, reply-goroutine starts and socket writes")
	idx := 0
	unit := func(cfg string, hs [][]string) {
		u := idx
		idx++
		if !w.Mine(u) {
			return
		}
		w.BeginUnit(u, "cfg="+cfg)
		for _, h := range hs {
			c := explore.Case{Prop: "C08", Unit: "cfg=" + cfg, H: h}
			w.Journal(c)
			r := runC08(t, c)
			w.Record(c, r)
			w.AddStates(1)
		}
		w.Flush(false)
	}
	for _, cfg := range dgConfigs() {
		// singles, one unit per (cfg, method)
		for _, m := range c08Methods {
			var hs [][]string
			for _, sh := range c08Shapes(m) {
				for _, tn := range tidOrder {
					for _, sn := range []string{"v4", "v6", "mapped"} {
						hs = append(hs, []string{c08Query{m, sh, tn, sn}.letter()})
					}
				}
				hs = append(hs, []string{c08Query{m, sh, "aa", "v6zone"}.letter()})
			}
			unit(cfg.Name, hs)
		}
		var hs [][]string
		for _, yv := range []string{"r", "e", "zz", "none", "rq", "qsame"} {
			for _, k := range []string{"unmatched", "matched"} {
				for _, sn := range []string{"v4", "v6", "mapped", "v6zone"} {
					hs = append(hs, []string{"n:" + yv + ":" + k + ":" + sn})
				}
			}
		}
		unit(cfg.Name, hs)
		reps := c08Representatives()
		for _, a := range reps {
			var hp [][]string
			for _, b := range reps {
				qa, _ := parseC08Query(a)
				qb, _ := parseC08Query(b)
				distinct := qa.tidName != qb.tidName || qa.srcName != qb.srcName
				if !strings.Contains(a, "tokened") && !strings.Contains(b, "tokened") && distinct {
					hp = append(hp, []string{"pair:" + a + "+" + b})
				}
				hp = append(hp, []string{a, b})
			}
			unit(cfg.Name, hp)
		}
	}
	if w.Thorough() {
		// all ordered pairs (back-to-back and in sequence) over every (method, shape) with two
		// transaction-id forms and two sources, in the two richest configurations
		var core []string
		for _, m := range c08Methods {
			for _, sh := range c08Shapes(m) {
				if strings.HasPrefix(sh, "tokened") {
					continue
				}
				core = append(core, c08Query{m, sh, "aa", "v4"}.letter(), c08Query{m, sh, "hi", "v6"}.letter())
			}
		}
		w.Bound("thorough_pair_core", len(core))
		for _, cfgName := range []string{"default", "peerstore"} {
			for _, a := range core {
				var hp [][]string
				for _, b := range core {
					qa, _ := parseC08Query(a)
					qb, _ := parseC08Query(b)
					// reactions are attributed by (destination, t): concurrent pairs need distinct ones
					if qa.tidName != qb.tidName || qa.srcName != qb.srcName {
						hp = append(hp, []string{"pair:" + a + "+" + b})
					}
					hp = append(hp, []string{a, b})
				}
				unit(cfgName, hp)
			}
		}
	}
	if c08SyncTier != nil {
		c08SyncTier(t, w, &idx)
	}
}
