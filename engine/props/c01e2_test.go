//go:build verife2

package props

import (
	"fmt"
	"os"
	"strconv"
	"strings"
	"testing"
	"testing/synctest"
	"time"

	"github.com/anacrolix/dht/v2"
	"github.com/anacrolix/dht/v2/krpc"
	"github.com/anacrolix/dht/v2/verifsched"

	"verif/explore"
	"verif/sim"
)

// C01 at synchronisation-point granularity: "neither panics nor deadlocks nor stops serving". The
// real Server (root package and traversal/ through the import-rewriting overlay; the RWMutex model
// has Go's writer preference, so recursive read locking deadlocks as it does in production) runs a
// bucket refresh (as TableMaintainer does) and public API calls while datagrams arrive: an inbound
// query from a new node, the reply to the refresh's own find_node, a hostile datagram. All
// interleavings at lock / condition / socket-write granularity, state-pruned, bounded preemptions.

type s1Scn struct {
	Name    string
	Heavy   bool // thorough tier only
	Refresh bool
	Inbound string // "", "ping", "hostile"
	API     bool
	Reply   bool // the peer in the table answers the refresh's find_node
	Close   bool
}

func s1Scenarios() []s1Scn {
	return []s1Scn{
		{Name: "refresh-inbound", Refresh: true, Inbound: "ping"},
		{Name: "refresh-inbound-reply", Heavy: true, Refresh: true, Inbound: "ping", Reply: true},
		{Name: "refresh-api", Refresh: true, API: true, Reply: true},
		{Name: "refresh-hostile-api", Refresh: true, Inbound: "hostile", API: true},
		{Name: "refresh-close", Heavy: true, Refresh: true, Inbound: "ping", Close: true},
		{Name: "inbound-api-close", Inbound: "ping", API: true, Close: true},
	}
}

func runS1(t *testing.T, scn *s1Scn, prefix []int) (x explore.Exec) {
	var c *e2Ctl
	var viol, outcome string
	pan := Bubble(t, func() {
		y := NewSys(func(cfg *dht.ServerConfig) {
			cfg.QueryResendDelay = func() time.Duration { return time.Second }
		})
		n1 := mkPeer("n1", 21, 0, 21)
		y.S.AddNode(krpc.NodeInfo{ID: n1.ID, Addr: krpc.NodeAddr{IP: n1.Addr.IP, Port: n1.Addr.Port}})
		y.Deliver(n1.Addr, sim.Query("q0", "ping", sim.M{"id": sim.IDStr(n1.ID)}))
		y.Take()
		synctest.Wait()
		c = newE2(prefix, 1500)
		defer c.done()
		abort := make(chan struct{})
		defer close(abort)
		y.Conn.BeforeWrite = func() { verifsched.Point("sock-write") }
		c.tick, c.maxTicks = time.Second, 10 // hard cap; deliberate ticks are bounded by the DFS observation budget
		c.isLoop = func(name string) bool {
			return strings.Contains(name, "(*Operation).run") || strings.Contains(name, "(*Operation).Stop.")
		}
		done := map[string]bool{}
		want := 0
		firstWrite := make(chan struct{})
		var tid string
		y.Conn.OnWrite = func(w *sim.Write) {
			if tid == "" && w.Err == nil {
				if o := DecodeWrites([]*sim.Write{w})[0]; o.Y() == "q" && o.To.String() == n1.Addr.String() {
					tid = o.T()
					close(firstWrite)
				}
			}
		}
		c.wantTick = func() bool { return len(done) < want }
		c.stateKey = func() string {
			return fmt.Sprintf("done=%v w=%d t=%d tid=%v", len(done), y.Conn.NumWrites(), c.ticks, tid != "")
		}
		var spawned []string
		spawn := func(name string, f func()) {
			want++
			spawned = append(spawned, name)
			go func() {
				verifsched.Tag(name)
				verifsched.Point("start")
				f()
				done[name] = true
			}()
		}
		if scn.Refresh {
			spawn("h:refresh", func() { y.S.VerifRefreshBucket(0) })
		}
		if scn.Inbound != "" {
			spawn("h:inbound", func() {
				src := sim.UDP4(77, 1, 1, 1, 7711)
				// The refresh target is a random ID of bucket 0 (crypto/rand, not ours to fix). Which
				// of two bucket-0 nodes is closer to it, and therefore queried first, would differ
				// between two runs of one schedule. When the scenario distinguishes the two queries
				// (one of them is answered), the new node lives in bucket 3: a bucket-0 node is closer
				// to every bucket-0 target than a node of any other bucket.
				inBucket := 0
				if scn.Reply {
					inBucket = 3
				}
				b := sim.Query("in", "ping", sim.M{"id": sim.IDStr(sim.InBucket(sim.Root, inBucket, 77))})
				if scn.Inbound == "hostile" {
					b = []byte("d1:q13:announce_peer1:t2:aa1:y1:qe")
				}
				y.Conn.Inject(src, b)
			})
		}
		if scn.API {
			spawn("h:api", func() {
				y.S.Stats()
				y.S.NumNodes()
				y.S.Nodes()
			})
		}
		if scn.Reply {
			want++
			spawned = append(spawned, "h:reply")
			go func() {
				select {
				case <-firstWrite:
				case <-abort:
					return
				}
				verifsched.Tag("h:reply")
				verifsched.Point("net-reply")
				if !y.Conn.IsClosed() {
					y.Conn.Inject(n1.Addr, sim.Reply(tid, sim.M{"id": sim.IDStr(n1.ID)}))
				}
				done["h:reply"] = true
			}()
		}
		closed := false
		if scn.Close {
			spawn("h:close", func() { closed = true; y.S.Close() })
		}
		if !c.loop(nil) {
			if c.err == "" {
				viol = "horizon: the scenario does not finish"
			}
			return
		}
		if _, bl := c.S.Snapshot(); len(bl) > 0 {
			var ns []string
			for _, b := range bl {
				ns = append(ns, b.Describe())
			}
			viol = "deadlock: nothing can run, these threads wait for a lock forever: " + strings.Join(ns, ", ")
			return
		}
		if scn.Reply && tid == "" {
			done["h:reply"] = true // the refresh never queried the peer: nothing to answer
		}
		if len(done) < want {
			var missing []string
			for _, n := range spawned {
				if !done[n] {
					missing = append(missing, n)
				}
			}
			viol = fmt.Sprintf("wedged: nothing can run and %d timer intervals passed, but these calls never returned: %v (want %d done %d)", c.ticks, missing, want, len(done))
			return
		}
		y.Conn.BeforeWrite = nil
		verifsched.Install(nil)
		synctest.Wait()
		if !closed {
			// still serving: a fresh well-formed ping is answered, the API returns
			y.Take()
			src := sim.UDP4(78, 1, 1, 1, 7811)
			ws, delivered := y.Deliver(src, sim.Query("probe", "ping", sim.M{"id": sim.IDStr(sim.InBucket(sim.Root, 3, 7))}))
			n := 0
			for _, o := range DecodeWrites(ws) {
				if o.Y() == "r" && o.T() == "probe" && o.To.String() == src.String() {
					n++
				}
			}
			if !delivered || n != 1 {
				viol = fmt.Sprintf("silenced: after the scenario a fresh ping got %d replies (delivered=%v)", n, delivered)
				return
			}
			y.S.Stats()
		}
		outcome = fmt.Sprintf("nodes=%d writes=%d", y.S.NumNodes(), y.Conn.NumWrites())
		if !closed {
			y.Close()
		}
		time.Sleep(5 * time.Second)
		synctest.Wait()
	})
	if c != nil {
		x.Points = c.points
		x.Trace = explore.TraceOf(c.points)
		x.Err = c.err
	}
	if pan != "" && viol == "" && x.Err == "" {
		viol = "bubble: " + firstLineOf(pan)
	}
	x.Res.Steps = len(x.Points)
	x.Res.Outcome = outcome
	if viol != "" {
		x.Res.Viol = viol + " [schedule: " + c13Sched(x.Points) + "]"
	}
	return
}

func c01SyncTierImpl(t *testing.T, w *explore.Worker, idx *int) {
	pb := 1
	if w.Thorough() {
		pb = 2
	}
	w.Bound("sync_tier_preemption_bound", pb)
	for _, scn := range s1Scenarios() {
		scn := scn
		i := *idx
		*idx++
		if !w.Mine(i) || (scn.Heavy && !w.Thorough()) {
			continue
		}
		if w.OutOfTime() {
			w.Cap("time budget hit before sync-tier scenario " + scn.Name)
			continue
		}
		unit := "sync;scn=" + scn.Name
		w.BeginUnit(i, unit)
		d := &explore.DFS{W: w, Unit: unit, Preempt: pb, Observe: 2, DetCheck: 2, Prune: true, MaxViol: 5,
			Run: func(prefix []int) explore.Exec { return runS1(t, &scn, prefix) }}
		if w.Thorough() {
			d.Deadline = time.Now().Add(w.Remaining() / 3)
		}
		d.Explore()
		w.AddStates(d.States)
		w.Note(fmt.Sprintf("%s: %d executions, %d states expanded, %d prunings, max %d scheduling points", unit, d.Executions, d.States, d.Pruned, d.MaxPoints))
		w.Flush(false)
	}
}

func init() {
	c01SyncTier = c01SyncTierImpl
	c01SyncReplay = func(t *testing.T, c explore.Case) explore.Result {
		name := strings.TrimPrefix(c.Unit, "sync;scn=")
		for _, scn := range s1Scenarios() {
			if scn.Name == name {
				ch, _ := explore.HToChoices(c.H)
				x := runS1(t, &scn, ch)
				if x.Err != "" {
					return explore.Result{Viol: "HARNESS: " + x.Err}
				}
				return x.Res
			}
		}
		return explore.Result{Viol: "HARNESS: unknown scenario " + name}
	}
}

// TestDbgS1 explores one sync-tier scenario on its own (debugging aid): VERIF_DBG_SCN=<name>
// VERIF_DBG_PB=<preemption bound>.
func TestDbgS1(t *testing.T) {
	name := os.Getenv("VERIF_DBG_SCN")
	if name == "" {
		t.Skip("VERIF_DBG_SCN not set")
	}
	pb, _ := strconv.Atoi(os.Getenv("VERIF_DBG_PB"))
	w := explore.NewWorker("C01")
	defer w.Finish()
	for _, scn := range s1Scenarios() {
		scn := scn
		if scn.Name != name {
			continue
		}
		unit := "sync;scn=" + scn.Name
		w.BeginUnit(0, unit)
		d := &explore.DFS{W: w, Unit: unit, Preempt: pb, Observe: 2, DetCheck: 1000000, Prune: true, MaxViol: 5, ShardTop: true,
			Run: func(prefix []int) explore.Exec { return runS1(t, &scn, prefix) }}
		d.Explore()
		fmt.Printf("DBG %s: %d executions, %d states, %d pruned, %d violating, timedout=%v\n", unit, d.Executions, d.States, d.Pruned, d.Violating, d.TimedOut)
	}
}
