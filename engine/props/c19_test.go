package props

import (
	"context"
	"crypto/sha1"
	"fmt"
	"net"
	"sort"
	"strings"
	"sync"
	"testing"
	"testing/synctest"
	"time"

	"github.com/anacrolix/dht/v2"
	"github.com/anacrolix/dht/v2/bep44"
	"github.com/anacrolix/dht/v2/exts/getput"
	"github.com/anacrolix/dht/v2/int160"
	"github.com/anacrolix/dht/v2/krpc"
	"github.com/anacrolix/torrent/metainfo"

	"verif/explore"
	"verif/sim"
)

// C19 — blocklisted addresses and passive mode are honoured on every path.
//
// Case = blocklist shape x moment of installation x passive x path (+ variant letters). The blocked
// peer Bx has an IPv4 and an IPv6 address; U1/U2 are ordinary peers. The write log is checked as a
// whole: no datagram to a destination that was blocked when it was written, ever.

type c19Env struct {
	y       *Sys
	net     *simNet
	bx4     *simPeer
	bx6     *simPeer
	u1, u2  *simPeer
	list    Blocklist
	passive bool

	mu        sync.Mutex
	installed bool
	instWrite int // write-log length when the list was installed
	hooks     []string
	store     *c13Store
	ps        *recPeerStore
}

func c19List(shape string) Blocklist {
	switch shape {
	case "v4single":
		return Blocklist{cidr("66.6.6.9/32")}
	case "v4range":
		return Blocklist{cidr("66.0.0.0/8")}
	case "v6single":
		return Blocklist{cidr("2001:db8:66::9/128")}
	}
	return Blocklist{cidr("66.6.6.9/32"), cidr("2001:db8:66::/48")}
}

func (e *c19Env) blockedNow(ip net.IP) bool {
	_, b := e.list.Lookup(ip)
	return b
}

// bx returns the blocked peer that the installed list actually covers.
func (e *c19Env) bx() *simPeer {
	if e.blockedNow(e.bx4.Addr.IP) {
		return e.bx4
	}
	return e.bx6
}

func (e *c19Env) install() {
	e.mu.Lock()
	e.installed = true
	e.instWrite = e.y.Conn.NumWrites()
	e.mu.Unlock()
	e.y.S.SetIPBlockList(e.list)
	synctest.Wait()
}

// preList: the server starts with another, unrelated blocklist already installed, so that the later
// SetIPBlockList replaces a list instead of installing the first one.
func newC19Env(shape string, atConstruct, passive, preList bool) *c19Env {
	e := &c19Env{list: c19List(shape), passive: passive, store: newC13Store(), ps: &recPeerStore{}}
	e.bx4 = &simPeer{Name: "bx4", Addr: sim.UDP4(66, 6, 6, 9, 6609), ID: sim.InBucket(sim.Root, 1, 41), Token: strp("tok:bx4")}
	e.bx6 = &simPeer{Name: "bx6", Addr: &net.UDPAddr{IP: net.ParseIP("2001:db8:66::9"), Port: 6609}, ID: sim.InBucket(sim.Root, 1, 42), Token: strp("tok:bx6")}
	e.u1 = mkPeer("u1", 11, 1, 11)
	e.u2 = mkPeer("u2", 12, 2, 12)
	e.u1.Nodes = []*simPeer{e.bx4, e.bx6, e.u2}
	e.u2.Nodes = []*simPeer{e.bx4, e.bx6}
	e.bx4.Nodes = []*simPeer{e.u2}
	e.bx6.Nodes = []*simPeer{e.u2}
	e.y = NewSys(func(c *dht.ServerConfig) {
		c.QueryResendDelay = func() time.Duration { return time.Second }
		c.Passive = passive
		c.Store = e.store
		c.PeerStore = e.ps
		if atConstruct {
			c.IPBlocklist = e.list
		} else if preList {
			c.IPBlocklist = Blocklist{cidr("198.51.100.0/24")}
		}
		c.OnQuery = func(m *krpc.Msg, src net.Addr) bool {
			e.mu.Lock()
			e.hooks = append(e.hooks, "onquery:"+src.String())
			e.mu.Unlock()
			return true
		}
		c.OnAnnouncePeer = func(ih metainfo.Hash, ip net.IP, port int, ok bool) {
			e.mu.Lock()
			e.hooks = append(e.hooks, "onannounce:"+ip.String())
			e.mu.Unlock()
		}
		c.StartingNodes = func() ([]dht.Addr, error) {
			return []dht.Addr{dht.NewAddr(e.bx4.Addr), dht.NewAddr(e.bx6.Addr), dht.NewAddr(e.u1.Addr)}, nil
		}
	})
	if atConstruct {
		e.installed = true
	}
	e.net = newSimNet(e.y, e.bx4, e.bx6, e.u1, e.u2)
	return e
}

// global oracle over the write log
func (e *c19Env) checkWrites() string {
	e.mu.Lock()
	from := e.instWrite
	inst := e.installed
	e.mu.Unlock()
	ws := e.y.Conn.Writes()
	for i, o := range DecodeWrites(ws) {
		if inst && i >= from && e.blockedNow(ws[i].To.IP) {
			return fmt.Sprintf("write-to-blocked: datagram %s written to blocklisted %v", o.Brief(), ws[i].To)
		}
		switch o.Y() {
		case "r", "e":
			if e.passive {
				return fmt.Sprintf("passive-replied: passive node wrote %s", o.Brief())
			}
		case "q":
			_, hasRO := o.M["ro"]
			ro, _ := o.M["ro"].(int64)
			if e.passive && ro != 1 {
				return fmt.Sprintf("passive-query-not-ro: passive node sent %s without ro=1", o.Brief())
			}
			if !e.passive && hasRO && ro != 0 {
				return fmt.Sprintf("ro-when-active: non-passive node sent %s with ro=%d", o.Brief(), ro)
			}
		}
	}
	return ""
}

// state fingerprint that inbound datagrams from a blocked address must leave unchanged
func (e *c19Env) fingerprint() string {
	t := e.y.S.VerifTable()
	var ns []string
	for _, n := range t.Nodes {
		ns = append(ns, fmt.Sprintf("%x@%s q%v r%v f%v", n.Id[:3], n.Addr, n.LastGotQuery.UnixNano(), n.LastGotResponse.UnixNano(), n.FailedPing))
	}
	sort.Strings(ns)
	e.store.mu.Lock()
	puts := e.store.nPuts
	e.store.mu.Unlock()
	e.mu.Lock()
	hooks := len(e.hooks)
	e.mu.Unlock()
	return fmt.Sprintf("%v tx=%d puts=%d adds=%d hooks=%d", ns, t.Transactions, puts, e.ps.numAdds(), hooks)
}

var c19Inbound = []string{"ping", "find_node", "get_peers", "get", "announce_peer", "put", "vote", "resp", "err"}

func (e *c19Env) inboundFromBx(kind, token string) []*sim.Write {
	bx := e.bx()
	a := sim.M{"id": sim.IDStr(bx.ID)}
	switch kind {
	case "find_node", "get":
		a["target"] = sim.IDStr(targetT)
	case "get_peers":
		a["info_hash"] = sim.IDStr(ihA)
	case "announce_peer":
		a["info_hash"], a["port"], a["token"] = sim.IDStr(ihA), 7000, token
	case "put":
		a["token"], a["v"], a["seq"] = token, "blocked-value", 0
	case "resp":
		ws, _ := e.y.Deliver(bx.Addr, sim.Reply("zz", sim.M{"id": sim.IDStr(bx.ID)}))
		return ws
	case "err":
		ws, _ := e.y.Deliver(bx.Addr, sim.ErrorMsg("zz", 201, "x"))
		return ws
	}
	ws, _ := e.y.Deliver(bx.Addr, sim.Query("bq", kind, a))
	return ws
}

func runC19(t *testing.T, c explore.Case) (res explore.Result) {
	p := kv(c.H)
	var outcome string
	pan := Bubble(t, func() {
		atConstruct := p["install"] == "construct"
		e := newC19Env(p["blk"], atConstruct, p["passive"] == "t", p["pre"] == "list")
		y := e.y
		defer func() {
			y.Close()
			time.Sleep(5 * time.Second)
			synctest.Wait()
		}()
		bx := e.bx()
		// before installation: Bx may become known, hold a token, have a query pending
		token := ""
		var pendingPing dht.QueryResult
		pendingDone := false
		if !atConstruct {
			switch p["install"] {
			case "after-in-table":
				y.Deliver(bx.Addr, sim.Query("k1", "ping", sim.M{"id": sim.IDStr(bx.ID)}))
			case "after-token":
				token = y.fetchToken(bx.Addr, "get_peers")
				if token == "" {
					token = y.fetchToken(bx.Addr, "get")
				}
			case "after-pending":
				// three tries: the resends fall after the installation of the list
				go func() { pendingPing = y.S.PingQueryInput(bx.Addr, dht.QueryInput{NumTries: 3}); pendingDone = true }()
				synctest.Wait()
				e.net.collect()
			}
			e.install()
		}
		if token == "" {
			token = "not-a-token"
		}
		path := p["path"]
		switch path {
		case "inbound":
			// two inbound datagrams from Bx in the given order
			seq := []string{p["a"], p["b"]}
			if p["c"] != "" {
				seq = append(seq, p["c"])
			}
			for _, k := range seq {
				before := e.fingerprint()
				ws := e.inboundFromBx(k, token)
				if len(ws) != 0 {
					res.Viol = fmt.Sprintf("reply-to-blocked: inbound %s from blocklisted %v produced %s", k, bx.Addr, Briefs(ws))
					return
				}
				if after := e.fingerprint(); after != before {
					res.Viol = fmt.Sprintf("blocked-had-effect: inbound %s from blocklisted %v changed the node's state: %s -> %s", k, bx.Addr, before, after)
					return
				}
			}
		case "pending-reply":
			// the query that was pending when the list was installed is answered by Bx
			for _, q := range e.net.open() {
				if q.To.String() == bx.Addr.String() {
					kind := p["a"]
					if kind == "err" {
						y.Conn.Inject(bx.Addr, sim.ErrorMsg(q.T, 201, "x"))
					} else {
						y.Conn.Inject(bx.Addr, sim.Reply(q.T, sim.M{"id": sim.IDStr(bx.ID)}))
					}
					synctest.Wait()
				}
			}
			if pendingDone && pendingPing.Err == nil {
				res.Viol = fmt.Sprintf("blocked-completed-query: the query to %v completed with a reply that arrived after the address was blocklisted", bx.Addr)
				return
			}
			for _, n := range y.S.VerifTable().Nodes {
				if n.Addr == bx.Addr.String() {
					res.Viol = fmt.Sprintf("blocked-in-table: %v entered the routing table through a reply that arrived after it was blocklisted", bx.Addr)
					return
				}
			}
		case "outbound":
			ctx, cancel := context.WithCancel(context.Background())
			defer cancel()
			a := dht.NewAddr(bx.Addr)
			pub := pubOf(bepKey1)
			_ = pub
			done := false
			go func() {
				switch p["a"] {
				case "ping":
					y.S.Ping(bx.Addr)
				case "find_node":
					y.S.FindNode(a, int160.FromByteArray(targetT), dht.QueryRateLimiting{})
				case "get_peers":
					y.S.GetPeers(ctx, a, int160.FromByteArray(ihA), false, dht.QueryRateLimiting{})
				case "get":
					y.S.Get(ctx, a, bep44.Target(targetT), nil, dht.QueryRateLimiting{})
				case "put":
					y.S.Put(ctx, a, bep44.Put{V: "x"}, "tok", dht.QueryRateLimiting{})
				}
				done = true
			}()
			synctest.Wait()
			time.Sleep(3 * time.Second)
			synctest.Wait()
			if !done {
				res.Viol = "blocked-query-hangs: a query to a blocklisted address did not return"
				return
			}
		case "traversal":
			ctx, cancel := context.WithCancel(context.Background())
			defer cancel()
			done := false
			e.net.collect()
			attemptedBefore := int(y.S.Stats().OutboundQueriesAttempted)
			attemptsBase := y.Conn.NumWrites()
			go func() {
				switch p["a"] {
				case "bootstrap":
					y.S.Bootstrap()
				case "announce":
					an, err := y.S.AnnounceTraversal(ihA, dht.AnnouncePeer(dht.AnnouncePeerOpts{Port: 6881}))
					if err == nil {
						for range an.Peers {
						}
						<-an.Finished()
					}
				case "gp.get":
					getput.Get(ctx, bep44.Target(sha1.Sum(sim.Enc("imm"))), y.S, nil, nil)
				case "gp.put":
					pub := pubOf(bepKey1)
					getput.Put(ctx, krpc.ID(mutableTarget(pub, nil)), y.S, nil, func(seq int64) bep44.Put {
						pp := bep44.Put{V: "x", K: &pub, Seq: seq + 1}
						pp.Sign(bepKey1)
						return pp
					})
				}
				done = true
			}()
			for i := 0; i < 40 && !done; i++ {
				e.net.drain()
				time.Sleep(250 * time.Millisecond)
				synctest.Wait()
			}
			if !done {
				res.Viol = "traversal-hangs: " + p["a"] + " did not finish"
				return
			}
			// every query the lookup attempted reached the wire: an attempt that did not was aimed at a
			// blocklisted address (the socket path refuses those), i.e. the lookup tried to query it
			e.net.collect()
			onWire := 0
			for _, q := range e.net.allQ {
				if q.First.Seq > attemptsBase {
					onWire++
				}
			}
			if att := int(y.S.Stats().OutboundQueriesAttempted) - attemptedBefore; att != onWire {
				res.Viol = fmt.Sprintf("lookup-queried-blocked: the %s lookup attempted %d queries but only %d reached the wire: it tried to query a blocklisted address", p["a"], att, onWire)
				return
			}
		case "announce-late-block":
			// Bx answers get_peers with a token, then becomes blocklisted before the announce phase
			done := false
			go func() {
				an, err := y.S.AnnounceTraversal(ihA, dht.AnnouncePeer(dht.AnnouncePeerOpts{Port: 6881}))
				if err == nil {
					for range an.Peers {
					}
					<-an.Finished()
				}
				done = true
			}()
			synctest.Wait()
			e.net.collect()
			// answer Bx first, keep the others pending
			for _, q := range e.net.open() {
				if q.Peer == e.bx4 || q.Peer == e.bx6 {
					e.net.answer(q)
				}
			}
			e.net.collect()
			e.install()
			for i := 0; i < 40 && !done; i++ {
				e.net.drain()
				time.Sleep(250 * time.Millisecond)
				synctest.Wait()
			}
			if !done {
				res.Viol = "traversal-hangs: announce did not finish"
				return
			}
		case "maintainer":
			// Bx is in the table (entered before the block); a maintenance round must not contact it
			go y.S.TableMaintainer()
			for i := 0; i < 40; i++ {
				synctest.Wait()
				e.net.drain()
				time.Sleep(30 * time.Second)
			}
			synctest.Wait()
		case "serve":
			// ordinary service: queries from U1 of every method (passive: no r/e at all)
			tok := y.fetchToken(e.u1.Addr, "get_peers")
			for _, k := range []string{"ping", "find_node", "get_peers", "get", "announce_peer", "put", "vote"} {
				a := sim.M{"id": sim.IDStr(e.u1.ID), "target": sim.IDStr(targetT), "info_hash": sim.IDStr(ihA), "port": 7, "token": tok, "v": "x", "seq": 0}
				y.Deliver(e.u1.Addr, sim.Query("sq", k, a))
			}
			y.Deliver(e.u1.Addr, sim.Enc(sim.M{"t": "sq", "y": "q", "q": "find_node"}))
		}
		synctest.Wait()
		// let resend and time-out timers of whatever is still pending (e.g. the query that was
		// outstanding when the list was installed) run out before the write log is judged
		time.Sleep(5 * time.Second)
		synctest.Wait()
		if v := e.checkWrites(); v != "" {
			res.Viol = v
			return
		}
		outcome = fmt.Sprintf("%s writes=%d", path, y.Conn.NumWrites())
		c19States[path+"|"+p["passive"]+"|"+e.fingerprint()] = struct{}{}
	})
	if pan != "" && res.Viol == "" {
		res.Viol = "panic: " + firstLineOf(pan)
	}
	res.Outcome = outcome
	res.Steps = 3
	return
}

var c19States = map[string]struct{}{}

func init() { runners["C19"] = runC19 }

func TestC19(t *testing.T) {
	w := explore.NewWorker("C19")
	defer w.Finish()
	w.SetRule("blocklist shape {single IPv4, IPv4 range, single IPv6, IPv4+IPv6} x installation {at construction, by SetIPBlockList after the blocked peer is in the table / holds a token / has a query pending, each as first list or replacing an unrelated list} x passive on/off x path: ordered pairs (thorough: also ordered triples, all four blocklist shapes) of 9 inbound datagram kinds from the blocked peer (every query method incl. tokened announce_peer and put, unsolicited response and error); reply/error to the query that was pending when the list was installed; Ping/FindNode/GetPeers/Get/Put to the blocked peer; Bootstrap, Announce, getput.Get, getput.Put over a network whose seeds and replies list the blocked peer; announce where the blocked peer answered get_peers before it was blocked; a 20-minute TableMaintainer run (the blocked entry turns questionable) with the blocked peer in the table; ordinary service of every method. Oracle: no datagram is ever written to a destination blocked at that moment; inbound from a blocked address causes no write and leaves table, stores, hooks and pending transactions unchanged; a pending query is not completed by a blocked reply; passive => no r/e written and every q carries ro=1, not passive => no q carries ro")
	idx := 0
	defer func() { w.AddStates(len(c19States)) }()
	run := func(h []string) {
		i := idx
		idx++
		if !w.Mine(i) {
			return
		}
		if w.OutOfTime() {
			w.Cap("time budget hit")
			return
		}
		c := explore.Case{Prop: "C19", Unit: "c19", H: h}
		w.BeginUnit(i, strings.Join(h, ";"))
		w.Journal(c)
		w.Record(c, runC19(t, c))
		w.Distinct(strings.Join(h, ";"))
	}
	blks := []string{"v4single", "v4range", "v6single", "both"}
	for _, blk := range blks {
		for _, passive := range []string{"f", "t"} {
			for _, inst := range []string{"construct", "after-in-table", "after-token", "after-pending"} {
				pres := []string{""}
				if inst != "construct" {
					pres = []string{"", "list"}
				}
				for _, pre := range pres {
					base := []string{"blk=" + blk, "passive=" + passive, "install=" + inst}
					if pre != "" {
						base = append(base, "pre="+pre)
					}
					for _, a := range c19Inbound {
						for _, b := range c19Inbound {
							if !w.Thorough() && (blk != "v4single" || pre != "") && a != b {
								continue
							}
							run(append(append([]string(nil), base...), "path=inbound", "a="+a, "b="+b))
							if w.Thorough() {
								for _, c3 := range c19Inbound {
									run(append(append([]string(nil), base...), "path=inbound", "a="+a, "b="+b, "c="+c3))
								}
							}
						}
					}
					if inst == "after-pending" {
						for _, a := range []string{"resp", "err"} {
							run(append(append([]string(nil), base...), "path=pending-reply", "a="+a))
						}
					}
					for _, a := range []string{"ping", "find_node", "get_peers", "get", "put"} {
						run(append(append([]string(nil), base...), "path=outbound", "a="+a))
					}
					for _, a := range []string{"bootstrap", "announce", "gp.get", "gp.put"} {
						run(append(append([]string(nil), base...), "path=traversal", "a="+a))
					}
					if inst == "after-in-table" {
						run(append(append([]string(nil), base...), "path=maintainer"))
					}
					run(append(append([]string(nil), base...), "path=serve"))
				}
			}
			run([]string{"blk=" + blk, "passive=" + passive, "install=late", "path=announce-late-block"})
		}
	}
}
