#!/bin/bash
# usage: tools/runall.sh [quick|thorough]  — runs every claimed check on /repo's working tree, one line each
cd "$(dirname "$0")/.."
tier=${1:-quick}
for id in $(python3 -c "import json;print(' '.join(c['property_id'] for c in json.load(open('MANIFEST.json'))['checks']))"); do
  s=$(date +%s); out=$(./run $id $tier 2>&1); rc=$?; e=$(date +%s)
  echo "$id rc=$rc $((e-s))s $(echo "$out" | grep "^$id $tier" | cut -c1-170) $(echo "$out" | grep -c '^KNOWN-FINDING') known"
  echo "$out" | grep "^VIOLATION\|^HARNESS" | head -3
done
