package props

import (
	"fmt"
	"math/big"
	"net/netip"
	"sort"
	"strconv"
	"strings"
	"testing"

	"github.com/anacrolix/dht/v2"
	"github.com/anacrolix/dht/v2/containers"
	"github.com/anacrolix/dht/v2/int160"
	k_nearest_nodes "github.com/anacrolix/dht/v2/k-nearest-nodes"
	"github.com/anacrolix/dht/v2/krpc"
	"github.com/anacrolix/dht/v2/types"
	"github.com/anacrolix/generics"

	"verif/explore"
	"verif/sim"
)

// C18 — algebraic laws of the XOR metric, bucket index and closeness orders; container contents
// against a sorted-slice reference. Pure functions: no bubble needed.

func c18Lattice() (ids []sim.ID) {
	var max sim.ID
	for i := range max {
		max[i] = 0xff
	}
	ids = append(ids, sim.ID{}, max, sim.Root)
	for b := 0; b < 160; b++ {
		x := sim.Root
		x[b/8] ^= 1 << (7 - uint(b%8))
		ids = append(ids, x)
		var y sim.ID
		y[b/8] = 1 << (7 - uint(b%8))
		ids = append(ids, y)
	}
	for k := 0; k < 8; k++ {
		var z sim.ID
		for i := range z {
			z[i] = byte((i*37 + k*91 + 5) ^ (k << 4))
		}
		ids = append(ids, z)
	}
	// dedup
	seen := map[sim.ID]bool{}
	var out []sim.ID
	for _, x := range ids {
		if !seen[x] {
			seen[x] = true
			out = append(out, x)
		}
	}
	return out
}

// c18LatticeExt extends the lattice (same prefix, so indices stay valid) by: the 160 prefix masks
// (top b bits set), their complements, root with two adjacent bits flipped, and IDs with two set
// bits 1, 7, 8 and 64 positions apart. Used by the thorough tier and by replay.
func c18LatticeExt() []sim.ID {
	out := c18Lattice()
	seen := map[sim.ID]bool{}
	for _, x := range out {
		seen[x] = true
	}
	add := func(x sim.ID) {
		if !seen[x] {
			seen[x] = true
			out = append(out, x)
		}
	}
	bit := func(x *sim.ID, b int) { x[b/8] ^= 1 << (7 - uint(b%8)) }
	var mask sim.ID
	for b := 0; b < 160; b++ {
		bit(&mask, b)
		add(mask)
		c := mask
		for i := range c {
			c[i] = ^c[i]
		}
		add(c)
		if b+1 < 160 {
			r := sim.Root
			bit(&r, b)
			bit(&r, b+1)
			add(r)
		}
		for _, gap := range []int{1, 7, 8, 64} {
			if b+gap < 160 {
				var y sim.ID
				bit(&y, b)
				bit(&y, b+gap)
				add(y)
			}
		}
	}
	return out
}

func bigOf(id sim.ID) *big.Int { return new(big.Int).SetBytes(id[:]) }

func c18Pair(a, b sim.ID) string {
	ia, ib := int160.FromByteArray(a), int160.FromByteArray(b)
	d1, d2 := ia.Distance(ib), ib.Distance(ia)
	if d1 != d2 {
		return fmt.Sprintf("distance-asymmetric: d(%x,%x) != d(%x,%x)", a, b, b, a)
	}
	if d1.IsZero() != (a == b) {
		return fmt.Sprintf("distance-identity: d(%x,%x) zero=%v", a, b, d1.IsZero())
	}
	if int160.Distance(ia, ib) != d1 {
		return "distance-func-method-disagree"
	}
	want := new(big.Int).Xor(bigOf(a), bigOf(b))
	if new(big.Int).SetBytes(d1.Bytes()).Cmp(want) != 0 {
		return fmt.Sprintf("distance-value: d(%x,%x) = %x want %x", a, b, d1.Bytes(), want)
	}
	if got, w := ia.Cmp(ib), bigOf(a).Cmp(bigOf(b)); got != w {
		return fmt.Sprintf("cmp-unsigned: Cmp(%x,%x) = %d, as unsigned integers %d", a, b, got, w)
	}
	if d1.BitLen() != want.BitLen() {
		return fmt.Sprintf("bitlen: BitLen(%x) = %d want %d", d1.Bytes(), d1.BitLen(), want.BitLen())
	}
	if a != b {
		if got, w := dht.VerifBucketIndex(ia, ib), sim.CommonPrefixLen(a, b); got != w {
			return fmt.Sprintf("bucket-index: root %x id %x -> bucket %d, shared prefix %d", a, b, got, w)
		}
	}
	return ""
}

func c18Bits(a sim.ID) string {
	ia := int160.FromByteArray(a)
	for i := 0; i < 160; i++ {
		want := a[i/8]>>(7-uint(i%8))&1 == 1
		if ia.GetBit(i) != want {
			return fmt.Sprintf("getbit: bit %d of %x", i, a)
		}
		x := ia
		x.SetBit(i, !want)
		y := a
		y[i/8] ^= 1 << (7 - uint(i%8))
		if x.AsByteArray() != y {
			return fmt.Sprintf("setbit: bit %d of %x -> %x want %x", i, a, x.AsByteArray(), y)
		}
		x.SetBit(i, want)
		if x != ia {
			return fmt.Sprintf("setbit-restore: bit %d of %x", i, a)
		}
	}
	return ""
}

func c18Random(root sim.ID, bucket int) string {
	r := int160.FromByteArray(root)
	for k := 0; k < 4; k++ {
		id := dht.VerifRandomIdInBucket(r, bucket)
		if got := sim.CommonPrefixLen(root, id.AsByteArray()); got != bucket {
			return fmt.Sprintf("random-id-bucket: random ID %v for bucket %d of root %x shares %d bits", id, bucket, root, got)
		}
	}
	return ""
}

// candidate universe for the closer-than order
func c18Universe() (u []types.AddrMaybeId) {
	ap := func(s string) krpc.NodeAddrPort { return krpc.NodeAddrPort{AddrPort: netip.MustParseAddrPort(s)} }
	addrs := []string{"1.1.1.1:1", "1.1.1.1:2", "1.1.1.2:1", "[2001:db8::1]:1", "1.1.1.1:65535", "9.9.9.9:0"}
	idOf := func(b byte, pos int) int160.T {
		var x sim.ID
		x[pos] = b
		return int160.FromByteArray(x)
	}
	ids := []int160.T{idOf(1, 19), idOf(2, 19), idOf(0x80, 0), idOf(0, 0), idOf(1, 0)}
	// ID-less at three addresses
	for _, a := range addrs[:3] {
		u = append(u, types.AddrMaybeId{Addr: ap(a)})
	}
	// equal IDs at different addresses and ports; different IDs at the same address
	for i, id := range ids {
		for j, a := range addrs {
			if (i+j)%2 == 0 || i == 0 {
				u = append(u, types.AddrMaybeId{Addr: ap(a), Id: generics.Some(id)})
			}
		}
	}
	if len(u) > 22 {
		u = u[:22]
	}
	// the same host and port in 4-byte and in IPv4-mapped 16-byte form, with and without an ID: two
	// distinct candidates, so one of them must be strictly closer (totality of the order)
	u = append(u, types.AddrMaybeId{Addr: ap("[::ffff:1.1.1.1]:1")}, types.AddrMaybeId{Addr: ap("[::ffff:1.1.1.1]:1"), Id: generics.Some(ids[0])})
	return
}

func amiStr(a types.AddrMaybeId) string {
	if a.Id.Ok {
		return fmt.Sprintf("%x@%s", a.Id.Value.Bytes(), a.Addr)
	}
	return "noid@" + a.Addr.String()
}

func c18Order(u []types.AddrMaybeId, target int160.T, i, j, k int) string {
	a, b, c := u[i], u[j], u[k]
	ab, ba := a.CloserThan(b, target), b.CloserThan(a, target)
	if i == j && ab {
		return "closer-irreflexive: " + amiStr(a)
	}
	if ab && ba {
		return fmt.Sprintf("closer-antisymmetric: %s <> %s", amiStr(a), amiStr(b))
	}
	if a != b && !ab && !ba {
		return fmt.Sprintf("closer-total: %s and %s are distinct but incomparable", amiStr(a), amiStr(b))
	}
	if ab && b.CloserThan(c, target) && !a.CloserThan(c, target) {
		return fmt.Sprintf("closer-transitive: %s < %s < %s", amiStr(a), amiStr(b), amiStr(c))
	}
	if a.Id.Ok && !b.Id.Ok && !ab {
		return fmt.Sprintf("known-before-unknown: %s not closer than %s", amiStr(a), amiStr(b))
	}
	if a.Id.Ok && b.Id.Ok {
		da, db := a.Id.Value.Distance(target), b.Id.Value.Distance(target)
		if bigOf(da.AsByteArray()).Cmp(bigOf(db.AsByteArray())) < 0 && !ab {
			return fmt.Sprintf("distance-monotone: %s is strictly nearer than %s but not closer-than", amiStr(a), amiStr(b))
		}
	}
	return ""
}

// k-nearest container: push sequence (indices into elems) with data = push position.
func c18Elems() []k_nearest_nodes.Key {
	ap := func(s string) krpc.NodeAddrPort { return krpc.NodeAddrPort{AddrPort: netip.MustParseAddrPort(s)} }
	id := func(b byte) krpc.ID { var x krpc.ID; x[19] = b; return x }
	return []k_nearest_nodes.Key{
		{ID: id(1), Addr: ap("1.1.1.1:1")},
		{ID: id(2), Addr: ap("1.1.1.2:1")},
		{ID: id(2), Addr: ap("1.1.1.3:1")}, // same distance as the previous, different key
		{ID: id(4), Addr: ap("1.1.1.4:1")},
		{ID: id(8), Addr: ap("[2001:db8::8]:8")},
		{ID: id(16), Addr: ap("1.1.1.6:1")},
	}
}

func c18Push(k int, seq []int) string {
	elems := c18Elems()
	c := k_nearest_nodes.New(int160.T{}, k)
	last := map[k_nearest_nodes.Key]int{}
	for pos, e := range seq {
		c = c.Push(k_nearest_nodes.Elem{Key: elems[e], Data: pos})
		last[elems[e]] = pos
		// reference: distinct keys pushed so far, by distance (= ID value, target 0)
		var keys []k_nearest_nodes.Key
		for kk := range last {
			keys = append(keys, kk)
		}
		wantLen := len(keys)
		if wantLen > k {
			wantLen = k
		}
		if c.Len() != wantLen {
			return fmt.Sprintf("knearest-len: after %v K=%d Len=%d want %d", seq[:pos+1], k, c.Len(), wantLen)
		}
		if c.Full() != (wantLen >= k) {
			return fmt.Sprintf("knearest-full: after %v K=%d", seq[:pos+1], k)
		}
		var got []k_nearest_nodes.Elem
		c.Range(func(e k_nearest_nodes.Elem) { got = append(got, e) })
		if len(got) != wantLen {
			return fmt.Sprintf("knearest-range: after %v Range yields %d want %d", seq[:pos+1], len(got), wantLen)
		}
		in := map[k_nearest_nodes.Key]bool{}
		for i, e := range got {
			lp, ok := last[e.Key]
			if !ok {
				return fmt.Sprintf("knearest-foreign: after %v holds a key never pushed", seq[:pos+1])
			}
			if e.Data != lp {
				return fmt.Sprintf("knearest-data: after %v key %v carries data %v, last pushed %d", seq[:pos+1], e.Key, e.Data, lp)
			}
			if in[e.Key] {
				return fmt.Sprintf("knearest-dup: after %v", seq[:pos+1])
			}
			in[e.Key] = true
			if i > 0 && got[i-1].ID[19] > e.ID[19] {
				return fmt.Sprintf("knearest-order: after %v not in distance order", seq[:pos+1])
			}
		}
		if wantLen > 0 {
			far := got[len(got)-1]
			if c.Farthest().Key != far.Key {
				return fmt.Sprintf("knearest-farthest: after %v", seq[:pos+1])
			}
			for _, kk := range keys {
				if !in[kk] && kk.ID[19] < far.ID[19] {
					return fmt.Sprintf("knearest-not-nearest: after %v K=%d: %v (dist %d) dropped while %v (dist %d) kept", seq[:pos+1], k, kk.Addr, kk.ID[19], far.Addr, far.ID[19])
				}
			}
		}
	}
	return ""
}

// sorted set: ops >=0 add elem i, <0 delete elem -1-i
func c18Set(ops []int) string {
	u := c18Universe()[:5]
	u[4] = c18Universe()[10]
	target := int160.FromByteArray(sim.ID{0: 0x80})
	s := containers.NewImmutableAddrMaybeIdsByDistance(target)
	ref := map[types.AddrMaybeId]bool{}
	for pos, op := range ops {
		if op >= 0 {
			s = s.Add(u[op])
			ref[u[op]] = true
		} else {
			s = s.Delete(u[-1-op])
			delete(ref, u[-1-op])
		}
		if s.Len() != len(ref) {
			return fmt.Sprintf("set-len: after %v Len=%d want %d", ops[:pos+1], s.Len(), len(ref))
		}
		if len(ref) > 0 {
			n := s.Next()
			if !ref[n] {
				return fmt.Sprintf("set-next-foreign: after %v", ops[:pos+1])
			}
			for x := range ref {
				if x != n && x.CloserThan(n, target) {
					return fmt.Sprintf("set-next-not-min: after %v Next=%s but %s is closer", ops[:pos+1], amiStr(n), amiStr(x))
				}
			}
		}
	}
	return ""
}

func c18Replay(c explore.Case) string {
	ints := func(s string) (r []int) {
		for _, f := range strings.Split(s, ",") {
			if f == "" {
				continue
			}
			v, _ := strconv.Atoi(f)
			r = append(r, v)
		}
		return
	}
	lat := c18LatticeExt()
	a := ints(strings.Join(c.H, ","))
	switch c.Unit {
	case "pair":
		return c18Pair(lat[a[0]], lat[a[1]])
	case "bits":
		return c18Bits(lat[a[0]])
	case "random":
		return c18Random(lat[a[0]], a[1])
	case "order":
		u := c18Universe()
		ts := c18Targets()
		return c18Order(u, ts[a[0]], a[1], a[2], a[3])
	case "push":
		return c18Push(a[0], a[1:])
	case "set":
		return c18Set(a)
	}
	return "HARNESS: unknown unit " + c.Unit
}

func c18Targets() []int160.T {
	var max sim.ID
	for i := range max {
		max[i] = 0xff
	}
	return []int160.T{{}, int160.FromByteArray(sim.Root), int160.FromByteArray(max), int160.FromByteArray(sim.ID{19: 3})}
}

func init() {
	runners["C18"] = func(t *testing.T, c explore.Case) (r explore.Result) {
		r.Viol = c18Replay(c)
		return
	}
}

func itoas(v ...int) []string {
	var s []string
	for _, x := range v {
		s = append(s, strconv.Itoa(x))
	}
	return s
}

func TestC18(t *testing.T) {
	w := explore.NewWorker("C18")
	defer w.Finish()
	w.SetRule("ID lattice (0, max, root, root with each bit flipped, each single bit, 8 mixed): all ordered pairs for symmetry/identity/unsigned order/bit length/bucket index against math/big and a bit-loop reference; all bits for GetBit/SetBit; all 160 buckets x 3 roots x 4 draws for random IDs; closer-than on a 24-element universe (ID-less, equal IDs at several addresses, v4/v6, ports 0/1/65535) x 4 targets: all pairs and all 24^3 triples; every push sequence of length <= 6 over 6 elements (one equal-distance pair) into the K-nearest container for K in 1..3; every add/delete sequence of length <= 5 over 5 elements into the sorted candidate set. thorough: lattice extended by prefix masks, complements and two-bit IDs (about 1300 IDs), K up to 4, push sequences <= 7, set sequences <= 6. distinct_nontrivial counts distinct inputs evaluated")
	lat := c18Lattice()
	maxK, pushLen, setLen := 3, 6, 5
	if w.Thorough() {
		lat = c18LatticeExt()
		maxK, pushLen, setLen = 4, 7, 6
	}
	w.Bound("lattice_ids", len(lat))
	w.Bound("push_len", pushLen)
	w.Bound("set_len", setLen)
	idx := 0
	// pairs, sharded by first index
	for i := range lat {
		u := idx
		idx++
		if !w.Mine(u) {
			continue
		}
		w.BeginUnit(u, fmt.Sprintf("pairs-%d", i))
		if v := c18Bits(lat[i]); v != "" {
			w.Violate(explore.Case{Prop: "C18", Unit: "bits", H: itoas(i)}, v)
		}
		for j := range lat {
			if v := c18Pair(lat[i], lat[j]); v != "" {
				w.Violate(explore.Case{Prop: "C18", Unit: "pair", H: itoas(i, j)}, v)
			}
		}
		w.Count(int64(len(lat))+1, int64(len(lat))+1)
		if i == 3 {
			w.Sample(explore.Case{Prop: "C18", Unit: "pair", H: itoas(3, 7)})
		}
	}
	w.Outcome("pairs", 1)
	// random ids
	if u := idx; w.Mine(u) {
		w.BeginUnit(u, "random-ids")
		var n int64
		for _, ri := range []int{0, 1, 2} {
			for b := 0; b < 160; b++ {
				if v := c18Random(lat[ri], b); v != "" {
					w.Violate(explore.Case{Prop: "C18", Unit: "random", H: itoas(ri, b)}, v)
				}
				n++
			}
		}
		w.Count(n, n)
		w.Outcome("random", 1)
	}
	idx++
	// closer-than triples, sharded by (target, i)
	uni := c18Universe()
	w.Bound("order_universe", len(uni))
	for ti, tg := range c18Targets() {
		for i := range uni {
			u := idx
			idx++
			if !w.Mine(u) {
				continue
			}
			w.BeginUnit(u, fmt.Sprintf("order-%d-%d", ti, i))
			var n int64
			for j := range uni {
				for k := range uni {
					if v := c18Order(uni, tg, i, j, k); v != "" {
						w.Violate(explore.Case{Prop: "C18", Unit: "order", H: itoas(ti, i, j, k)}, v)
					}
					n++
				}
			}
			w.Count(n, n)
		}
	}
	w.Outcome("order", 1)
	// push sequences, sharded by (K, first element)
	for k := 1; k <= maxK; k++ {
		for first := 0; first < 6; first++ {
			u := idx
			idx++
			if !w.Mine(u) {
				continue
			}
			w.BeginUnit(u, fmt.Sprintf("push-K%d-%d", k, first))
			var n int64
			var rec func(seq []int)
			rec = func(seq []int) {
				if v := c18Push(k, seq); v != "" {
					w.Violate(explore.Case{Prop: "C18", Unit: "push", H: itoas(append([]int{k}, seq...)...)}, v)
					return
				}
				n++
				if len(seq) == pushLen {
					return
				}
				for e := 0; e < 6; e++ {
					rec(append(append([]int(nil), seq...), e))
				}
			}
			rec([]int{first})
			w.Count(n, n)
			w.Sample(explore.Case{Prop: "C18", Unit: "push", H: itoas(k, first, 2, 1, 5)})
		}
	}
	w.Outcome("push", 1)
	// set sequences
	for first := -5; first < 5; first++ {
		u := idx
		idx++
		if !w.Mine(u) {
			continue
		}
		w.BeginUnit(u, fmt.Sprintf("set-%d", first))
		var n int64
		var rec func(seq []int)
		rec = func(seq []int) {
			if v := c18Set(seq); v != "" {
				w.Violate(explore.Case{Prop: "C18", Unit: "set", H: itoas(seq...)}, v)
				return
			}
			n++
			if len(seq) == setLen {
				return
			}
			for e := -5; e < 5; e++ {
				rec(append(append([]int(nil), seq...), e))
			}
		}
		rec([]int{first})
		w.Count(n, n)
	}
	w.Outcome("set", 1)
	_ = sort.Ints
}
