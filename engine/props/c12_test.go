package props

import (
	"context"
	"crypto/ed25519"
	"crypto/sha1"
	"fmt"
	"sort"
	"strconv"
	"strings"
	"testing"
	"testing/synctest"
	"time"

	"github.com/anacrolix/dht/v2"
	"github.com/anacrolix/dht/v2/bep44"
	"github.com/anacrolix/dht/v2/exts/getput"

	"verif/explore"
	"verif/sim"
)

// C12 — the BEP 44 store never accepts or serves a forged or oversized item; the get traversal hands
// its caller only verified values.

// ---- put generator ---------------------------------------------------------------------------------------

var c12Values = map[string]interface{}{
	"x":     "x",
	"s999":  strings.Repeat("v", 995), // encodes to exactly 999 bytes
	"s1000": strings.Repeat("v", 996), // 1000
	"s1001": strings.Repeat("v", 997), // 1001
	"list":  []interface{}{"a", 1, []interface{}{"b"}},
	"dict":  map[string]interface{}{"b": 1, "a": "z"},
}
var c12ValueOrder = []string{"x", "s999", "s1000", "s1001", "list", "dict"}

var c12Salts = map[string][]byte{"none": nil, "s1": []byte("s"), "s64": []byte(strings.Repeat("s", 64)), "s65": []byte(strings.Repeat("s", 65))}
var c12SaltOrder = []string{"none", "s1", "s64", "s65"}

var c12Sigs = []string{"valid", "othersalt", "otherseq", "othervalue", "otherkey", "flip0", "flip255", "flip511", "zero"}

type c12Put struct {
	Mutable bool
	Key     string // k1 | k2
	Salt    string
	Seq     int64
	Val     string
	Sig     string
	Cas     int64
}

// letter: "M:<key>:<salt>:<seq>:<val>:<sig>" or "I:<val>"
func (p c12Put) letter() string {
	if !p.Mutable {
		return "I:" + p.Val
	}
	return fmt.Sprintf("M:%s:%s:%d:%s:%s", p.Key, p.Salt, p.Seq, p.Val, p.Sig)
}

func parseC12Put(l string) (p c12Put, ok bool) {
	f := strings.Split(l, ":")
	switch {
	case f[0] == "I" && len(f) == 2:
		return c12Put{Val: f[1]}, true
	case f[0] == "M" && len(f) == 6:
		s, _ := strconv.ParseInt(f[3], 10, 64)
		return c12Put{Mutable: true, Key: f[1], Salt: f[2], Seq: s, Val: f[4], Sig: f[5]}, true
	}
	return p, false
}

func c12Key(n string) ed25519.PrivateKey {
	if n == "k2" {
		return bepKey2
	}
	return bepKey1
}

// materialise returns (k, salt, seq, value, encoded value, sig) exactly as sent.
func (p c12Put) materialise() (k [32]byte, salt []byte, v interface{}, enc []byte, sig [64]byte) {
	v = c12Values[p.Val]
	enc = sim.Enc(v)
	if !p.Mutable {
		return
	}
	key := c12Key(p.Key)
	k = pubOf(key)
	salt = c12Salts[p.Salt]
	var s []byte
	switch p.Sig {
	case "valid", "flip0", "flip255", "flip511":
		s = refSign(key, salt, p.Seq, enc)
	case "othersalt":
		s = refSign(key, []byte("other"), p.Seq, enc)
	case "otherseq":
		s = refSign(key, salt, p.Seq+1, enc)
	case "othervalue":
		s = refSign(key, salt, p.Seq, sim.Enc("another value"))
	case "otherkey":
		other := bepKey2
		if p.Key == "k2" {
			other = bepKey1
		}
		s = refSign(other, salt, p.Seq, enc)
	case "zero":
		s = make([]byte, 64)
	}
	copy(sig[:], s)
	switch p.Sig {
	case "flip0":
		sig[0] ^= 0x80
	case "flip255":
		sig[31] ^= 0x01
	case "flip511":
		sig[63] ^= 0x01
	}
	return
}

// reference acceptance rule (C12 only; C13's seq/cas rules are checked elsewhere)
func (p c12Put) refVerdict() (ok bool, codes map[int64]bool) {
	k, salt, _, enc, sig := p.materialise()
	codes = map[int64]bool{}
	if len(enc) > 1000 {
		codes[205] = true
	}
	if p.Mutable {
		if len(salt) > 64 {
			codes[207] = true
		}
		if !ed25519.Verify(k[:], refSignBuf(salt, p.Seq, enc), sig[:]) {
			codes[206] = true
		}
	}
	return len(codes) == 0, codes
}

func (p c12Put) target() sim.ID {
	k, salt, _, enc, _ := p.materialise()
	if p.Mutable {
		return mutableTarget(k, salt)
	}
	return sha1.Sum(enc)
}

func c12PutLetters(core bool) (out []string) {
	add := func(p c12Put) { out = append(out, p.letter()) }
	for _, v := range c12ValueOrder {
		add(c12Put{Val: v})
	}
	vals := []string{"x", "s999", "s1000", "s1001"}
	for _, salt := range c12SaltOrder {
		for _, sig := range c12Sigs {
			for _, v := range vals {
				if core && !(v == "x" || (sig == "valid")) {
					continue
				}
				if core && (sig == "flip255" || sig == "flip511") && salt != "none" {
					continue
				}
				add(c12Put{Mutable: true, Key: "k1", Salt: salt, Seq: 1, Val: v, Sig: sig})
			}
		}
	}
	for _, seq := range []int64{0, 2} {
		for _, sig := range []string{"valid", "otherseq", "zero"} {
			add(c12Put{Mutable: true, Key: "k1", Salt: "none", Seq: seq, Val: "x", Sig: sig})
		}
	}
	for _, v := range []string{"list", "dict"} {
		for _, sig := range []string{"valid", "othervalue"} {
			add(c12Put{Mutable: true, Key: "k2", Salt: "s1", Seq: 1, Val: v, Sig: sig})
		}
	}
	add(c12Put{Mutable: true, Key: "k2", Salt: "none", Seq: 1, Val: "x", Sig: "valid"})
	add(c12Put{Mutable: true, Key: "k2", Salt: "none", Seq: 1, Val: "x", Sig: "otherkey"})
	return
}

// every target a probe asks for after a history
func c12ProbeTargets() (out []sim.ID) {
	seen := map[sim.ID]bool{}
	for _, l := range c12PutLetters(false) {
		p, _ := parseC12Put(l)
		t := p.target()
		if !seen[t] {
			seen[t] = true
			out = append(out, t)
		}
		_, _, _, enc, _ := p.materialise()
		h := sim.ID(sha1.Sum(enc))
		if !seen[h] {
			seen[h] = true
			out = append(out, h)
		}
	}
	return
}

// known (key, salt) pairs by mutable target, for re-verifying what get replies serve
func c12KnownMutable() map[sim.ID][2]string {
	out := map[sim.ID][2]string{}
	for _, kn := range []string{"k1", "k2"} {
		for _, sn := range c12SaltOrder {
			out[mutableTarget(pubOf(c12Key(kn)), c12Salts[sn])] = [2]string{kn, sn}
		}
	}
	return out
}

// ---- store side runner -------------------------------------------------------------------------------------

func runC12Store(t *testing.T, c explore.Case) (res explore.Result) {
	wire := strings.Contains(c.Unit, "mode=wire")
	var outcome []string
	pan := Bubble(t, func() {
		store := newC13Store()
		var w *bep44.Wrapper
		var y *Sys
		if wire {
			y = NewSys(func(cfg *dht.ServerConfig) { cfg.Store = store; cfg.Exp = c13Exp })
			defer y.Close()
		} else {
			w = bep44.NewWrapper(store, c13Exp)
		}
		known := c12KnownMutable()
		accepted := map[sim.ID]c12Put{} // last accepted put per target (reference view)
		for i, l := range c.H {
			res.Steps++
			p, ok := parseC12Put(l)
			if !ok {
				res.Viol = "HARNESS: bad letter " + l
				return
			}
			k, salt, v, _, sig := p.materialise()
			good, codes := p.refVerdict()
			store.mu.Lock()
			before := store.nPuts
			store.mu.Unlock()
			var got string
			if wire {
				tok := y.fetchToken(srcV4, "get")
				a := sim.M{"id": sim.IDStr(peerID), "token": tok, "v": v, "seq": p.Seq}
				if p.Mutable {
					a["k"], a["sig"] = string(k[:]), string(sig[:])
					if salt != nil {
						a["salt"] = string(salt)
					}
				}
				ws, _ := y.Deliver(srcV4, sim.Query("pp", "put", a))
				outs := DecodeWrites(ws)
				if len(outs) != 1 {
					res.Viol = fmt.Sprintf("put-reply: step %d %s: %d datagrams in reaction to a tokened put (%s)", i, l, len(outs), Briefs(ws))
					return
				}
				if outs[0].Y() == "r" {
					got = "ok"
				} else {
					got = strconv.FormatInt(outs[0].ECode(), 10)
				}
			} else {
				it := &bep44.Item{V: v, Seq: p.Seq, Salt: salt}
				if p.Mutable {
					it.K, it.Sig = k, sig
				}
				got = errCode(w.Put(it))
			}
			outcome = append(outcome, got)
			store.mu.Lock()
			after := store.nPuts
			store.mu.Unlock()
			if !good {
				if got == "ok" {
					res.Viol = fmt.Sprintf("forged-accepted: step %d %s was accepted; the reference rejects it with one of %v", i, l, codeList(codes))
					return
				}
				code, _ := strconv.ParseInt(got, 10, 64)
				if !codes[code] {
					res.Viol = fmt.Sprintf("wrong-error-code: step %d %s was rejected with %s; applicable BEP 44 codes are %v", i, l, got, codeList(codes))
					return
				}
				if after != before {
					res.Viol = fmt.Sprintf("store-changed-on-reject: step %d %s was rejected with %s but the store saw %d Put call(s)", i, l, got, after-before)
					return
				}
			} else if got == "ok" {
				accepted[p.target()] = p
			} else if got != "301" && got != "302" {
				res.Viol = fmt.Sprintf("valid-rejected: step %d %s is valid under BEP 44 but was answered %s", i, l, got)
				return
			}
			{
				var ks []string
				for tg, ap := range accepted {
					ks = append(ks, fmt.Sprintf("%x=%s", tg[:3], ap.letter()))
				}
				sort.Strings(ks)
				c12States[c.Unit+strings.Join(ks, ",")] = struct{}{}
			}
			// probes: what does the node serve now?
			for _, tgt := range c12ProbeTargets() {
				var hasV bool
				var gv interface{}
				var gk, gsig string
				var gseq int64
				if wire {
					ws, _ := y.Deliver(srcV4, sim.Query("gg", "get", sim.M{"id": sim.IDStr(peerID), "target": sim.IDStr(tgt)}))
					outs := DecodeWrites(ws)
					if len(outs) != 1 || outs[0].Y() != "r" {
						res.Viol = fmt.Sprintf("get-reply: probe after step %d: expected one response, got %s", i, Briefs(ws))
						return
					}
					r := outs[0].R()
					gv, hasV = r["v"]
					gk, _ = sim.Str(r, "k")
					gsig, _ = sim.Str(r, "sig")
					gseq, _ = r["seq"].(int64)
				} else {
					it, err := w.Get(bep44.Target(tgt))
					if err == nil {
						hasV, gv, gk, gsig, gseq = true, it.V, string(it.K[:]), string(it.Sig[:]), it.Seq
						if !it.IsMutable() {
							gk = ""
						}
					}
				}
				want, stored := accepted[tgt]
				if !hasV {
					if stored {
						res.Viol = fmt.Sprintf("accepted-not-served: %s was accepted but a get for its target %x returns no value (after step %d)", want.letter(), tgt[:4], i)
						return
					}
					continue
				}
				enc := sim.Enc(gv)
				if !stored {
					res.Viol = fmt.Sprintf("served-without-accept: get for target %x returns a value (%d bytes) although no accepted put has that target (after step %d %s)", tgt[:4], len(enc), i, l)
					return
				}
				mutableServed := gk != "" && gk != string(make([]byte, 32))
				if mutableServed {
					ks, isKnown := known[tgt]
					okv := false
					if isKnown {
						pk := pubOf(c12Key(ks[0]))
						okv = gk == string(pk[:]) && ed25519.Verify(pk[:], refSignBuf(c12Salts[ks[1]], gseq, enc), []byte(gsig))
					}
					if !okv || len(enc) > 1000 {
						res.Viol = fmt.Sprintf("forged-served: get for target %x serves a mutable item (seq %d, %d bytes) that does not verify under that target's key and salt (after step %d %s)", tgt[:4], gseq, len(enc), i, l)
						return
					}
				} else if sim.ID(sha1.Sum(enc)) != tgt || len(enc) > 1000 {
					res.Viol = fmt.Sprintf("wrong-hash-served: get for target %x serves an immutable value hashing to %x (after step %d %s)", tgt[:4], sha1.Sum(enc), i, l)
					return
				}
			}
		}
	})
	if pan != "" && res.Viol == "" {
		res.Viol = "panic: " + firstLineOf(pan)
	}
	res.Outcome = strings.Join(outcome, ",")
	return
}

var c12States = map[string]struct{}{}

func codeList(m map[int64]bool) (out []int64) {
	for k := range m {
		out = append(out, k)
	}
	sort.Slice(out, func(i, j int) bool { return out[i] < out[j] })
	return
}

// ---- client side: getput.Get against simulated nodes ----------------------------------------------------------

// node behaviours for a get traversal
var c12NodeBeh = []string{"nothing", "seq1", "seq2", "forgedv", "otherkey", "noseq", "badsig", "imm", "immwrong", "seq2-notoken", "seq3-othersalt", "replay2-forged", "replay2-higher", "seqneg"}

func c12NodeExtra(beh string) (extra sim.M, token *string) {
	salt := []byte("s")
	pk := pubOf(bepKey1)
	pk2 := pubOf(bepKey2)
	token = strp("tok")
	mk := func(k [32]byte, signer ed25519.PrivateKey, signSalt []byte, seq int64, signV, sendV string) sim.M {
		return sim.M{"k": string(k[:]), "seq": seq, "v": sendV, "sig": string(refSign(signer, signSalt, seq, sim.Enc(signV)))}
	}
	switch beh {
	case "nothing":
		return sim.M{}, token
	case "seq1":
		return mk(pk, bepKey1, salt, 1, "one", "one"), token
	case "seq2":
		return mk(pk, bepKey1, salt, 2, "two", "two"), token
	case "seqneg":
		return mk(pk, bepKey1, salt, -5, "neg", "neg"), token
	case "seq2-notoken":
		return mk(pk, bepKey1, salt, 2, "two", "two"), nil
	case "forgedv":
		return mk(pk, bepKey1, salt, 9, "nine", "forged"), token
	case "replay2-forged": // the genuine seq-2 signature replayed over another value
		return mk(pk, bepKey1, salt, 2, "two", "forged"), token
	case "replay2-higher": // ... and claiming a higher seq
		m := mk(pk, bepKey1, salt, 2, "two", "forged")
		m["seq"] = 5
		return m, token
	case "otherkey":
		return mk(pk2, bepKey2, salt, 8, "eight", "eight"), token
	case "seq3-othersalt":
		return mk(pk, bepKey1, []byte("t"), 3, "three", "three"), token
	case "noseq":
		m := mk(pk, bepKey1, salt, 7, "seven", "seven")
		delete(m, "seq")
		return m, token
	case "badsig":
		m := mk(pk, bepKey1, salt, 6, "six", "six")
		m["sig"] = strings.Repeat("\x02", 64)
		return m, token
	case "imm":
		return sim.M{"v": "imm"}, token
	case "immwrong":
		return sim.M{"v": "not the value"}, token
	}
	return sim.M{}, token
}

// Unit "mode=client;tgt=<mut|imm>", H = [beh1, beh2, ...(peers)..., "|", order letters "A<i>" / "T"]
func runC12Client(t *testing.T, c explore.Case) (res explore.Result) {
	mut := strings.Contains(c.Unit, "tgt=mut")
	sep := -1
	for i, l := range c.H {
		if l == "|" {
			sep = i
		}
	}
	if sep < 0 {
		res.Viol = "HARNESS: bad case"
		return
	}
	behs, order := c.H[:sep], c.H[sep+1:]
	pan := Bubble(t, func() {
		var peers []*simPeer
		for i, b := range behs {
			p := mkPeer(fmt.Sprintf("n%d", i), byte(i+1), 1, i+1)
			p.Extra, p.Token = c12NodeExtra(b)
			peers = append(peers, p)
		}
		y := NewSys(func(cfg *dht.ServerConfig) {
			cfg.QueryResendDelay = func() time.Duration { return time.Second }
			cfg.StartingNodes = func() ([]dht.Addr, error) {
				var out []dht.Addr
				for _, p := range peers {
					out = append(out, dht.NewAddr(p.Addr))
				}
				return out, nil
			}
		})
		defer y.Close()
		net := newSimNet(y, peers...)
		pk := pubOf(bepKey1)
		salt := []byte("s")
		target := bep44.Target(mutableTarget(pk, salt))
		if !mut {
			target = bep44.Target(sha1.Sum(sim.Enc("imm")))
			salt = nil
		}
		var gr getput.GetResult
		var gerr error
		done := false
		go func() {
			gr, _, gerr = getput.Get(context.Background(), target, y.S, nil, salt)
			done = true
		}()
		synctest.Wait()
		net.collect()
		delivered := map[int]bool{}
		for _, l := range order {
			res.Steps++
			if l == "T" {
				time.Sleep(time.Second + time.Nanosecond)
			} else {
				i, _ := strconv.Atoi(l[1:])
				for _, q := range net.open() {
					if q.Peer == peers[i] && q.Q == "get" {
						if !done {
							delivered[i] = true
						}
						net.answer(q)
					}
				}
			}
			synctest.Wait()
			net.collect()
		}
		time.Sleep(5 * time.Second)
		synctest.Wait()
		if !done {
			res.Viol = "no-return: getput.Get did not return after every node answered or timed out"
			return
		}
		// reference: which delivered replies carry a value that is valid for this target
		bestSeq, bestV, anyValid := int64(-1<<63), "", false
		validImm := false
		for i, b := range behs {
			if !delivered[i] {
				continue
			}
			switch b {
			case "seq1", "seq2", "seq2-notoken", "seqneg":
				if mut {
					s, v := int64(1), "one"
					if b == "seqneg" {
						s, v = -5, "neg"
					} else if b != "seq1" {
						s, v = 2, "two"
					}
					anyValid = true
					if s >= bestSeq {
						bestSeq, bestV = s, v
					}
				}
			case "imm":
				if !mut {
					validImm = true
				}
			}
		}
		switch {
		case mut && anyValid:
			if gerr != nil || !gr.Mutable || gr.Seq != bestSeq || string(gr.V) != string(sim.Enc(bestV)) {
				res.Viol = fmt.Sprintf("wrong-get-result: nodes %v: expected the verified item with the highest seq (%d, %q); got err=%v mutable=%v seq=%d v=%q", behs, bestSeq, bestV, gerr, gr.Mutable, gr.Seq, string(gr.V))
			}
		case !mut && validImm:
			if gerr != nil || sha1.Sum(gr.V) != target {
				res.Viol = fmt.Sprintf("wrong-get-result: nodes %v: expected the immutable value hashing to the target; got err=%v v=%q", behs, gerr, string(gr.V))
			}
		default:
			if gerr == nil {
				res.Viol = fmt.Sprintf("unverified-value-returned: nodes %v (order %v): no reply carries a value valid for the target, but Get returned mutable=%v seq=%d v=%q", behs, order, gr.Mutable, gr.Seq, string(gr.V))
			}
		}
		res.Outcome = fmt.Sprintf("client err=%v seq=%d", gerr != nil, gr.Seq)
		c12States[fmt.Sprintf("client %v %v %v", mut, behs, order)] = struct{}{}
	})
	if pan != "" && res.Viol == "" {
		res.Viol = "panic: " + firstLineOf(pan)
	}
	return
}

// sync-level tier (schedule explorer, overlay with goroutine-start points), overlay builds only
var (
	c12SyncTier   func(t *testing.T, w *explore.Worker, idx *int)
	c12SyncReplay func(t *testing.T, c explore.Case) explore.Result
)

func runC12(t *testing.T, c explore.Case) explore.Result {
	if strings.HasPrefix(c.Unit, "sync;") {
		if c12SyncReplay == nil {
			return explore.Result{Viol: "HARNESS: sync tier not built"}
		}
		return c12SyncReplay(t, c)
	}
	if strings.HasPrefix(c.Unit, "mode=client") {
		return runC12Client(t, c)
	}
	return runC12Store(t, c)
}

func init() {
	runners["C12"] = runC12
	warmups["C12"] = func(t *testing.T) {
		for _, l := range c12PutLetters(false) {
			runC12Store(t, explore.Case{Prop: "C12", Unit: "mode=direct", H: []string{l}})
		}
	}
}

func permutations(n int) (out [][]int) {
	var rec func(cur []int, used []bool)
	rec = func(cur []int, used []bool) {
		if len(cur) == n {
			out = append(out, append([]int(nil), cur...))
			return
		}
		for i := 0; i < n; i++ {
			if !used[i] {
				used[i] = true
				rec(append(cur, i), used)
				used[i] = false
			}
		}
	}
	rec(nil, make([]bool, n))
	return
}

func TestC12(t *testing.T) {
	w := explore.NewWorker("C12")
	defer w.Finish()
	w.SetRule("store side: puts from a generator (immutable values of 6 shapes incl. encodings of exactly 999/1000/1001 bytes; mutable puts over 2 keys x salts of 0/1/64/65 bytes x seq 0..2 x signature in {valid, made for another salt / seq / value / key, 3 single-bit flips, zero}) sent over the wire with a fresh token and directly into bep44.Wrapper with a recording store, as singles and as all ordered pairs (quick: of a core subset; thorough: of all), each step followed by a get for every target and every value hash ever mentioned; reference: accept iff encoded value <= 1000 bytes and (immutable or (salt <= 64 bytes and ed25519 signature verifies)), rejected puts carry an applicable code of 205/206/207 and cause no Store.Put, every served value re-verifies under its target; client side: getput.Get on a mutable and an immutable target against 1-3 simulated nodes, each answering from 14 behaviours (genuine seq 1/2, forged value under a genuine signature, another key, matching key without seq, bad signature, another salt, a genuine signature replayed over another value / seq, immutable genuine / wrong hash, no token, nothing), all assignments x all reply orders (and time-outs)")
	idx := 0
	if c12SyncTier != nil {
		c12SyncTier(t, w, &idx)
	}
	do := func(unit string, h []string) {
		c := explore.Case{Prop: "C12", Unit: unit, H: h}
		w.Journal(c)
		w.Record(c, runC12(t, c))
		w.Distinct(unit + "|" + strings.Join(h, ";"))
	}
	all := c12PutLetters(false)
	core := c12PutLetters(true)
	w.Bound("put_letters", len(all))
	w.Bound("core_letters", len(core))
	for _, mode := range []string{"direct", "wire"} {
		pairSet := core
		if w.Thorough() {
			pairSet = all
		}
		for _, first := range all {
			u := idx
			idx++
			if !w.Mine(u) {
				continue
			}
			if w.OutOfTime() {
				w.Cap("time budget hit in the store tier")
				continue
			}
			w.BeginUnit(u, "mode="+mode+";first="+first)
			do("mode="+mode, []string{first})
			inPair := false
			for _, x := range pairSet {
				if x == first {
					inPair = true
				}
			}
			if !inPair {
				continue
			}
			for _, second := range pairSet {
				if w.OutOfTime() {
					w.Cap("time budget hit in the store tier")
					break
				}
				do("mode="+mode, []string{first, second})
			}
			w.Flush(false)
		}
	}
	defer func() { w.AddStates(len(c12States)) }()
	// client side
	maxPeers := 2
	if w.Thorough() {
		maxPeers = 3
	}
	for _, tgt := range []string{"mut", "imm"} {
		for n := 1; n <= maxPeers; n++ {
			total := 1
			for i := 0; i < n; i++ {
				total *= len(c12NodeBeh)
			}
			for a := 0; a < total; a++ {
				u := idx
				idx++
				if !w.Mine(u) {
					continue
				}
				if w.OutOfTime() {
					w.Cap("time budget hit in the client tier")
					continue
				}
				behs := make([]string, n)
				x := a
				for i := 0; i < n; i++ {
					behs[i] = c12NodeBeh[x%len(c12NodeBeh)]
					x /= len(c12NodeBeh)
				}
				unit := "mode=client;tgt=" + tgt
				w.BeginUnit(u, unit+";"+strings.Join(behs, ","))
				for _, perm := range permutations(n) {
					var order []string
					for _, i := range perm {
						order = append(order, "A"+strconv.Itoa(i))
					}
					do(unit, append(append(append([]string(nil), behs...), "|"), order...))
					// the last node times out instead of answering
					if n > 1 {
						o2 := append(append([]string(nil), order[:n-1]...), "T")
						do(unit, append(append(append([]string(nil), behs...), "|"), o2...))
					}
				}
			}
		}
	}
}
