#!/bin/bash
# usage: tools/trymut.sh <patch.diff> <ID> [tier]   — applies the patch to /repo, runs the check, always reverts.
set -u
patch=$1; id=$2; tier=${3:-quick}
cd /repo || exit 2
if ! git diff --quiet; then echo "repo dirty, refusing"; exit 2; fi
git apply "$patch" || { echo "patch does not apply"; exit 2; }
trap 'git -C /repo checkout -- . ; git -C /repo clean -fdq -- . 2>/dev/null' EXIT
cd /verif && VERIF_REPLAYS_DIR=/verif/.build/mut-replays VERIF_EVIDENCE_DIR=/verif/.build/mut-evidence ./run "$id" "$tier" 2>&1 | cut -c1-500
echo "rc=${PIPESTATUS[0]}"
