//go:build verife2

package props

import (
	"fmt"
	"strings"
	"testing"
	"testing/synctest"
	"time"

	"github.com/anacrolix/dht/v2/verifsched"

	"verif/explore"
	"verif/sim"
)

// C08 at synchronisation-point granularity ("in any order and concurrently"): three queries from
// different (or the same) sources reach the socket at the explorer's discretion; the serve loop,
// the start of every reply goroutine (overlay variant e2go) and every socket write are scheduling
// points. Whatever the interleaving, each query gets exactly its own reaction: right destination,
// its own t, right form — and nothing else is written.

type r8Scn struct {
	Name string
	Cfg  string
	Q    []string
}

func r8Scenarios() []r8Scn {
	return []r8Scn{
		{"three-askers-same-t", "default", []string{"q:ping:full:aa:v4", "q:find_node:full:aa:v6", "q:get_peers:full:aa:mapped"}},
		{"one-asker-two-t", "default", []string{"q:ping:full:aa:v4", "q:ping:full:a:v4", "q:vote:full:aa:other"}},
		{"errors-and-silence", "default", []string{"q:get:noa:aa:v4", "q:get:full:hi:v6", "q:announce_peer:badtoken:a:other"}},
		{"store-askers", "peerstore", []string{"q:get_peers:full:aa:v4", "q:get_peers:full:a:v6", "q:find_node:noa:aa:other"}},
	}
}

func runR8(t *testing.T, scn *r8Scn, prefix []int) (x explore.Exec) {
	var c *e2Ctl
	var viol, outcome string
	cfg, ok := dgConfig(scn.Cfg)
	if !ok {
		x.Err = "unknown config " + scn.Cfg
		return
	}
	pan := Bubble(t, func() {
		y := &c08Sys{Sys: NewSys(cfg.Opts...), cfg: scn.Cfg, budget: -1}
		synctest.Wait()
		y.Take()
		c = newE2(prefix, 800)
		defer c.done()
		y.Conn.BeforeWrite = func() { verifsched.Point("sock-write") }
		var qs []c08Query
		for _, l := range scn.Q {
			q, ok := parseC08Query(l)
			if !ok {
				viol = "HARNESS: bad letter " + l
				return
			}
			qs = append(qs, q)
		}
		done := 0
		c.stateKey = func() string { return fmt.Sprintf("done=%d w=%d", done, y.Conn.NumWrites()) }
		for i, q := range qs {
			i, q := i, q
			go func() {
				verifsched.Tag(fmt.Sprintf("h:asker%d", i))
				verifsched.Point("net")
				y.Conn.Inject(sources[q.srcName], q.build(""))
				done++
			}()
		}
		if !c.loop(nil) {
			if c.err == "" {
				viol = "horizon: the scenario does not finish"
			}
			return
		}
		if _, bl := c.S.Snapshot(); len(bl) > 0 || done < len(qs) {
			viol = "deadlock: the datagrams were not all processed"
			return
		}
		y.Conn.BeforeWrite = nil
		verifsched.Install(nil)
		synctest.Wait()
		// attribute every written datagram to the query with its (destination, t)
		ws := y.Conn.Writes()
		per := make([][]*sim.Write, len(qs))
		for k, o := range DecodeWrites(ws) {
			owner := -1
			for i, q := range qs {
				if o.To.String() == sources[q.srcName].String() && o.T() == tidForms[q.tidName] {
					owner = i
				}
			}
			if owner < 0 {
				viol = fmt.Sprintf("unsolicited-write: %s matches no query of the scenario (destination, t)", Briefs(ws[k:k+1]))
				return
			}
			per[owner] = append(per[owner], ws[k])
		}
		for i, q := range qs {
			if v := y.checkOne(q, per[i]); v != "" {
				viol = v
				return
			}
		}
		outcome = fmt.Sprintf("writes=%d", len(ws))
		y.Close()
		time.Sleep(5 * time.Second)
		synctest.Wait()
	})
	if c != nil {
		x.Points = c.points
		x.Trace = explore.TraceOf(c.points)
		x.Err = c.err
	}
	if pan != "" && viol == "" && x.Err == "" {
		viol = "bubble: " + firstLineOf(pan)
	}
	x.Res.Steps = len(x.Points)
	x.Res.Outcome = outcome
	if viol != "" {
		x.Res.Viol = viol + " [schedule: " + c13Sched(x.Points) + "]"
	}
	return
}

func init() {
	c08SyncTier = func(t *testing.T, w *explore.Worker, idx *int) {
		pb := 2
		if w.Thorough() {
			pb = -1
		}
		w.Bound("sync_tier_preemption_bound", pb)
		for _, scn := range r8Scenarios() {
			scn := scn
			i := *idx
			*idx++
			if !w.Mine(i) {
				continue
			}
			unit := "sync;scn=" + scn.Name
			w.BeginUnit(i, unit)
			d := &explore.DFS{W: w, Unit: unit, Preempt: pb, Observe: 0, DetCheck: 2, Prune: true, MaxViol: 5,
				Run: func(prefix []int) explore.Exec { return runR8(t, &scn, prefix) }}
			if w.Thorough() {
				d.Deadline = time.Now().Add(w.Remaining() / 4)
			}
			d.Explore()
			w.AddStates(d.States)
			w.Note(fmt.Sprintf("%s: %d executions, %d states expanded, %d prunings, max %d scheduling points", unit, d.Executions, d.States, d.Pruned, d.MaxPoints))
			w.Flush(false)
		}
	}
	c08SyncReplay = func(t *testing.T, c explore.Case) explore.Result {
		name := strings.TrimPrefix(c.Unit, "sync;scn=")
		for _, scn := range r8Scenarios() {
			if scn.Name == name {
				ch, _ := explore.HToChoices(c.H)
				x := runR8(t, &scn, ch)
				if x.Err != "" {
					return explore.Result{Viol: "HARNESS: " + x.Err}
				}
				return x.Res
			}
		}
		return explore.Result{Viol: "HARNESS: unknown scenario " + name}
	}
}
