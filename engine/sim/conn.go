// Package sim provides the deterministic execution substrate: a fake net.PacketConn, helpers to
// build and decode KRPC datagrams independently of the krpc package, ID helpers and goroutine
// leak inspection. Everything here is meant to be used inside a testing/synctest bubble.
package sim

import (
	"errors"
	"net"
	"sync"
	"time"
)

type Packet struct {
	From net.Addr
	B    []byte
}

type Write struct {
	At    time.Time
	To    *net.UDPAddr
	B     []byte
	Err   error // scripted error returned for this write (datagram not "sent")
	Seq   int   // 1-based index of this WriteTo call
	Taken bool  // harness bookkeeping: already consumed by Net
}

// Conn is an in-memory net.PacketConn. Create it inside the bubble.
type Conn struct {
	Local  *net.UDPAddr
	in     chan Packet
	closed chan struct{}
	once   sync.Once

	mu       sync.Mutex
	writes   []*Write
	nWrites  int
	FailSend map[int]error // 1-based WriteTo index -> error to return
	// BlockSend[i]: the i-th WriteTo call does not return before the channel is closed (a socket
	// write stuck in the kernel).
	BlockSend map[int]chan struct{}
	// ShortWrite[i] makes the i-th write report n-1 bytes.
	ShortWrite map[int]bool
	OnWrite    func(w *Write)
	// BeforeWrite runs at the entry of every WriteTo (the schedule explorer parks the writer here).
	BeforeWrite func()
}

func NewConn() *Conn {
	return &Conn{
		Local:  &net.UDPAddr{IP: net.IPv4(203, 0, 113, 1).To4(), Port: 4000},
		in:     make(chan Packet),
		closed: make(chan struct{}),
	}
}

func (c *Conn) ReadFrom(p []byte) (int, net.Addr, error) {
	select {
	case pk := <-c.in:
		n := copy(p, pk.B)
		return n, pk.From, nil
	case <-c.closed:
		return 0, nil, net.ErrClosed
	}
}

func (c *Conn) WriteTo(p []byte, addr net.Addr) (int, error) {
	if c.BeforeWrite != nil {
		c.BeforeWrite()
	}
	select {
	case <-c.closed:
		return 0, net.ErrClosed
	default:
	}
	ua, _ := addr.(*net.UDPAddr)
	if ua != nil {
		ua = &net.UDPAddr{IP: append(net.IP(nil), ua.IP...), Port: ua.Port, Zone: ua.Zone}
	}
	c.mu.Lock()
	c.nWrites++
	w := &Write{At: time.Now(), To: ua, B: append([]byte(nil), p...), Seq: c.nWrites}
	if err, ok := c.FailSend[c.nWrites]; ok {
		w.Err = err
	}
	short := c.ShortWrite[c.nWrites]
	block := c.BlockSend[c.nWrites]
	c.writes = append(c.writes, w)
	cb := c.OnWrite
	c.mu.Unlock()
	if block != nil {
		<-block
	}
	if cb != nil {
		cb(w)
	}
	if w.Err != nil {
		return 0, w.Err
	}
	if short {
		return len(p) - 1, nil
	}
	return len(p), nil
}

func (c *Conn) Close() error {
	c.once.Do(func() { close(c.closed) })
	return nil
}

func (c *Conn) IsClosed() bool {
	select {
	case <-c.closed:
		return true
	default:
		return false
	}
}

func (c *Conn) LocalAddr() net.Addr              { return c.Local }
func (c *Conn) SetDeadline(time.Time) error      { return nil }
func (c *Conn) SetReadDeadline(time.Time) error  { return nil }
func (c *Conn) SetWriteDeadline(time.Time) error { return nil }

var ErrNotRead = errors.New("datagram not consumed by the serve loop")

// Inject hands one datagram to the serve loop from a helper goroutine; Delivered reports
// (after a synctest.Wait) whether the serve loop took it.
type Injection struct{ done chan struct{} }

func (c *Conn) Inject(from net.Addr, b []byte) *Injection {
	inj := &Injection{done: make(chan struct{})}
	// A real socket hands out a fresh address value per datagram: never alias the harness' own
	// address objects (code that scribbles on the sender's address must not corrupt the oracle).
	if ua, ok := from.(*net.UDPAddr); ok {
		from = &net.UDPAddr{IP: append(net.IP(nil), ua.IP...), Port: ua.Port, Zone: ua.Zone}
	}
	go func() {
		select {
		case c.in <- Packet{From: from, B: b}:
			close(inj.done)
		case <-c.closed:
		}
	}()
	return inj
}

// InjectSync hands one datagram to the serve loop from the calling goroutine and returns when the
// reader has taken it (or the socket is closed). With several callers the datagrams are read in the
// order in which the callers got here (the channel's send queue is FIFO), which makes the arrival
// order a function of the schedule of the callers.
func (c *Conn) InjectSync(from net.Addr, b []byte) bool {
	if ua, ok := from.(*net.UDPAddr); ok {
		from = &net.UDPAddr{IP: append(net.IP(nil), ua.IP...), Port: ua.Port, Zone: ua.Zone}
	}
	select {
	case c.in <- Packet{From: from, B: b}:
		return true
	case <-c.closed:
		return false
	}
}

func (i *Injection) Delivered() bool {
	select {
	case <-i.done:
		return true
	default:
		return false
	}
}

// Writes returns all writes so far (including failed ones).
func (c *Conn) Writes() []*Write {
	c.mu.Lock()
	defer c.mu.Unlock()
	return append([]*Write(nil), c.writes...)
}

func (c *Conn) NumWrites() int {
	c.mu.Lock()
	defer c.mu.Unlock()
	return len(c.writes)
}

// WritesSince returns writes with index >= n.
func (c *Conn) WritesSince(n int) []*Write {
	c.mu.Lock()
	defer c.mu.Unlock()
	if n > len(c.writes) {
		n = len(c.writes)
	}
	return append([]*Write(nil), c.writes[n:]...)
}
