#!/usr/bin/env python3
"""mkmut.py <name> <file> <<< 'OLD\n===\nNEW'  — writes /verif/mutants/<name>.diff from a single replacement in /tmp/mutwt."""
import sys, subprocess
name, path = sys.argv[1], sys.argv[2]
old, new = sys.stdin.read().split("\n===\n")
new = new.rstrip("\n")
old = old.rstrip("\n")
import os
if not os.path.isdir("/tmp/mutwt"):
    subprocess.run(["git", "-C", "/repo", "worktree", "add", "-q", "--detach", "/tmp/mutwt", "HEAD"], check=True)
head = subprocess.run(["git", "-C", "/repo", "rev-parse", "HEAD"], capture_output=True, text=True).stdout.strip()
subprocess.run(["git", "-C", "/tmp/mutwt", "checkout", "-q", "--detach", head], check=True)
p = "/tmp/mutwt/" + path
s = open(p).read()
assert s.count(old) == 1, (s.count(old), old)
open(p, "w").write(s.replace(old, new))
d = subprocess.run(["git", "-C", "/tmp/mutwt", "diff"], capture_output=True, text=True).stdout
open("/verif/mutants/%s.diff" % name, "w").write(d)
subprocess.run(["git", "-C", "/tmp/mutwt", "checkout", "--", "."])
print(name, len(d.splitlines()), "lines")
