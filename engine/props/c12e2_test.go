//go:build verife2

package props

import (
	"context"
	"crypto/ed25519"
	"fmt"
	"strings"
	"testing"
	"testing/synctest"
	"time"

	"github.com/anacrolix/dht/v2"
	"github.com/anacrolix/dht/v2/bep44"
	"github.com/anacrolix/dht/v2/verifsched"

	"verif/explore"
	"verif/sim"
)

// C12 at synchronisation-point granularity (overlay with scheduling points at goroutine starts):
// a get for a stored mutable item races a correctly signed update put for the same target. Whatever
// the interleaving of the serve loop, the reply goroutines and the socket writes, every get reply
// that carries a value must verify (seq, v and sig of one and the same item).

type g2Scn struct {
	Name    string
	Gets    int
	Puts    int
	APIPuts int // Server.Put calls (the client API stores the item in the local store before it sends it)
}

func g2Scenarios() []g2Scn {
	return []g2Scn{{"get-put", 1, 1, 0}, {"get-put-get", 2, 1, 0}, {"get-put-put", 1, 2, 0}, {"get-apiput", 1, 0, 1}, {"get-apiput-get", 2, 0, 1}}
}

func runG2(t *testing.T, scn *g2Scn, prefix []int) (x explore.Exec) {
	var c *e2Ctl
	var viol, outcome string
	pan := Bubble(t, func() {
		store := bep44.NewMemory()
		y := NewSys(func(cfg *dht.ServerConfig) { cfg.Store = store; cfg.Exp = c13Exp })
		pub := pubOf(bepKey1)
		target := mutableTarget(pub, nil)
		put := func(seq int64, v string, tok string) []byte {
			it := c13Item(seq, 0, v)
			return sim.Query(fmt.Sprintf("p%d", seq), "put", sim.M{"id": sim.IDStr(peerID), "token": tok, "v": v, "seq": seq, "k": string(it.K[:]), "sig": string(it.Sig[:])})
		}
		tok := y.fetchToken(srcV4, "get")
		y.Deliver(srcV4, put(1, "value-one", tok))
		// the stored item has been served once before the race starts
		y.Deliver(srcV6, sim.Query("warm", "get", sim.M{"id": sim.IDStr(peerID), "target": sim.IDStr(target)}))
		y.Take()
		synctest.Wait()
		nwarm := y.Conn.NumWrites()
		c = newE2(prefix, 600)
		defer c.done()
		y.Conn.BeforeWrite = func() { verifsched.Point("sock-write") }
		done := 0
		want := scn.Gets + scn.Puts + scn.APIPuts
		apiCtx, apiCancel := context.WithCancel(context.Background())
		defer apiCancel()
		c.stateKey = func() string { return fmt.Sprintf("done=%d w=%d", done, y.Conn.NumWrites()) }
		for i := 0; i < scn.Gets; i++ {
			i := i
			go func() {
				verifsched.Tag(fmt.Sprintf("h:get%d", i))
				verifsched.Point("net")
				y.Conn.Inject(srcV6, sim.Query(fmt.Sprintf("g%d", i), "get", sim.M{"id": sim.IDStr(peerID), "target": sim.IDStr(target)}))
				done++
			}()
		}
		for i := 0; i < scn.Puts; i++ {
			i := i
			go func() {
				verifsched.Tag(fmt.Sprintf("h:put%d", i))
				verifsched.Point("net")
				y.Conn.Inject(srcV4, put(int64(2+i), fmt.Sprintf("value-%d", 2+i), tok))
				done++
			}()
		}
		for i := 0; i < scn.APIPuts; i++ {
			i := i
			go func() {
				verifsched.Tag(fmt.Sprintf("h:apiput%d", i))
				verifsched.Point("api")
				it := c13Item(int64(2+i), 0, fmt.Sprintf("value-%d", 2+i))
				done++ // the call itself only returns when its query to the (silent) remote node is given up
				y.S.Put(apiCtx, dht.NewAddr(sim.UDP4(61, 9, 9, 9, 6199)), bep44.Put{V: it.V, K: &it.K, Sig: it.Sig, Seq: it.Seq}, "remote-token", dht.QueryRateLimiting{})
			}()
		}
		if !c.loop(nil) {
			if c.err == "" {
				viol = "horizon: the scenario does not finish"
			}
			return
		}
		apiCancel()
		if _, bl := c.S.Snapshot(); len(bl) > 0 || done < want {
			viol = "deadlock: the datagrams were not all processed"
			return
		}
		y.Conn.BeforeWrite = nil
		verifsched.Install(nil)
		synctest.Wait()
		nget := 0
		for _, o := range DecodeWrites(y.Conn.WritesSince(nwarm)) {
			if o.Y() != "r" || !strings.HasPrefix(o.T(), "g") {
				continue
			}
			nget++
			r := o.R()
			v, hasV := r["v"]
			if !hasV {
				viol = "accepted-not-served: a get for the stored target was answered without a value"
				return
			}
			seq, _ := r["seq"].(int64)
			k, _ := sim.Str(r, "k")
			sig, _ := sim.Str(r, "sig")
			if k != string(pub[:]) || !ed25519.Verify(pub[:], refSignBuf(nil, seq, sim.Enc(v)), []byte(sig)) {
				viol = fmt.Sprintf("forged-served: get reply carries seq=%d v=%v with a signature that does not verify for them (fields of two different items mixed)", seq, v)
				return
			}
		}
		if nget != scn.Gets {
			viol = fmt.Sprintf("get-reply: %d get replies for %d gets", nget, scn.Gets)
			return
		}
		outcome = fmt.Sprintf("gets=%d writes=%d", nget, y.Conn.NumWrites())
		y.Close()
		time.Sleep(5 * time.Second)
		synctest.Wait()
	})
	if c != nil {
		x.Points = c.points
		x.Trace = explore.TraceOf(c.points)
		x.Err = c.err
	}
	if pan != "" && viol == "" && x.Err == "" {
		viol = "bubble: " + firstLineOf(pan)
	}
	x.Res.Steps = len(x.Points)
	x.Res.Outcome = outcome
	if viol != "" {
		x.Res.Viol = viol + " [schedule: " + c13Sched(x.Points) + "]"
	}
	return
}

func init() {
	c12SyncTier = func(t *testing.T, w *explore.Worker, idx *int) {
		pb := 2
		if w.Thorough() {
			pb = -1
		}
		w.Bound("sync_tier_preemption_bound", pb)
		for _, scn := range g2Scenarios() {
			scn := scn
			i := *idx
			*idx++
			if !w.Mine(i) {
				continue
			}
			unit := "sync;scn=" + scn.Name
			w.BeginUnit(i, unit)
			d := &explore.DFS{W: w, Unit: unit, Preempt: pb, Observe: 0, DetCheck: 2, Prune: true, MaxViol: 5,
				Run: func(prefix []int) explore.Exec { return runG2(t, &scn, prefix) }}
			if w.Thorough() {
				d.Deadline = time.Now().Add(w.Remaining() / 4)
			}
			d.Explore()
			w.AddStates(d.States)
			w.Note(fmt.Sprintf("%s: %d executions, %d states expanded, %d prunings, max %d scheduling points", unit, d.Executions, d.States, d.Pruned, d.MaxPoints))
			w.Flush(false)
		}
	}
	c12SyncReplay = func(t *testing.T, c explore.Case) explore.Result {
		name := strings.TrimPrefix(c.Unit, "sync;scn=")
		for _, scn := range g2Scenarios() {
			if scn.Name == name {
				ch, _ := explore.HToChoices(c.H)
				x := runG2(t, &scn, ch)
				if x.Err != "" {
					return explore.Result{Viol: "HARNESS: " + x.Err}
				}
				return x.Res
			}
		}
		return explore.Result{Viol: "HARNESS: unknown scenario " + name}
	}
}
