#!/bin/bash
# usage: tools/mutants.sh [glob]   — runs each mutants/<ID>-<name>.diff (ID = property) against its check; prints one line each.
# Each mutant is applied to a scratch worktree of /repo's HEAD (VERIF_REPO); /repo itself is never modified.
# MUT_TESTS=1 additionally runs the repository's own test suite with the mutant applied (it should stay green).
cd /verif || exit 2
export GOFLAGS=-mod=mod GOPROXY=off GOSUMDB=off GOTOOLCHAIN=local
pat=${1:-*}
wt=$(mktemp -d /tmp/mutrun-XXXXXX); rmdir "$wt"
git -C /repo worktree add -q --detach "$wt" HEAD || exit 2
trap 'git -C /repo worktree remove --force "$wt" 2>/dev/null; rm -rf "$wt"' EXIT
for f in mutants/$pat.diff; do
  name=$(basename "$f" .diff); id=${name%%-*}
  git -C "$wt" checkout -q -- . ; git -C "$wt" clean -fdq
  if ! git -C "$wt" apply "$PWD/$f" 2>/dev/null; then echo "$name APPLY-FAILED"; continue; fi
  tests="-"
  if [ -n "$MUT_TESTS" ]; then
    if (cd "$wt" && go build ./... && go test -vet=off -count=1 ./... >/dev/null 2>&1); then tests=green; else tests=RED; fi
  fi
  out=$(VERIF_REPO="$wt" VERIF_REPLAYS_DIR=/verif/.build/mut-replays VERIF_EVIDENCE_DIR=/verif/.build/mut-evidence ./run "$id" ${MUT_TIER:-quick} 2>&1); rc=$?
  kind=$(echo "$out" | grep -m1 -B1 "^VIOLATION" | head -1 | cut -c1-160)
  echo "$name rc=$rc tests=$tests $(echo "$out" | grep -c '^VIOLATION') viol | $kind"
done
