// Package sync is the scheduler shim for "sync" and "github.com/anacrolix/sync" (see verifsched).
// Injected by overlay; same API surface as the parts of sync the explored packages use.
package sync

import (
	stdsync "sync"

	"github.com/anacrolix/dht/v2/verifsched"
)

type (
	Once      = stdsync.Once
	WaitGroup = stdsync.WaitGroup
	Locker    = stdsync.Locker
	Map       = stdsync.Map
)

// Pool behaves like sync.Pool within one execution (one synctest bubble) and never hands an object
// from an earlier execution to a later one: channels and timers created inside a bubble must not
// be used outside it, and executions must not influence each other.
type Pool struct {
	New func() any

	mu    stdsync.Mutex
	epoch uint64
	items []any
}

func (p *Pool) Get() any {
	p.mu.Lock()
	if e := verifsched.Epoch(); e != p.epoch {
		p.epoch, p.items = e, nil
	}
	if n := len(p.items); n > 0 {
		x := p.items[n-1]
		p.items = p.items[:n-1]
		p.mu.Unlock()
		return x
	}
	p.mu.Unlock()
	if p.New != nil {
		return p.New()
	}
	return nil
}

func (p *Pool) Put(x any) {
	p.mu.Lock()
	if e := verifsched.Epoch(); e != p.epoch {
		p.epoch, p.items = e, nil
	}
	p.items = append(p.items, x)
	p.mu.Unlock()
}

type Mutex struct {
	native stdsync.Mutex
	st     verifsched.LockState
}

func (m *Mutex) Lock() {
	if verifsched.Current() == nil {
		m.native.Lock()
		return
	}
	verifsched.Lock(&m.st)
}

func (m *Mutex) Unlock() {
	if verifsched.Current() == nil {
		m.native.Unlock()
		return
	}
	verifsched.Unlock(&m.st)
}

type RWMutex struct {
	native stdsync.RWMutex
	st     verifsched.LockState
}

func (m *RWMutex) Lock() {
	if verifsched.Current() == nil {
		m.native.Lock()
		return
	}
	verifsched.Lock(&m.st)
}

func (m *RWMutex) Unlock() {
	if verifsched.Current() == nil {
		m.native.Unlock()
		return
	}
	verifsched.Unlock(&m.st)
}

func (m *RWMutex) RLock() {
	if verifsched.Current() == nil {
		m.native.RLock()
		return
	}
	verifsched.RLock(&m.st)
}

func (m *RWMutex) RUnlock() {
	if verifsched.Current() == nil {
		m.native.RUnlock()
		return
	}
	verifsched.RUnlock(&m.st)
}
