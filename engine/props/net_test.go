package props

import (
	"fmt"
	"net"
	"sort"
	"testing/synctest"

	"verif/sim"
)

// simNet is the simulated network behind the fake socket: it decodes the server's outbound queries
// from the write log, keeps them pending, and lets the harness answer each one (or never) with the
// reply its simulated peer would give. Used by C14, C16, C19, C20.

type simPeer struct {
	Name   string
	Addr   *net.UDPAddr
	ID     sim.ID
	Silent bool
	// get_peers / get behaviour
	Token    *string // nil: no token key in replies
	Nodes    []*simPeer
	Values   []string // compact peer entries
	ErrReply bool     // answers every query with a 201 error
	ClaimID  *sim.ID  // answers under another ID
	Extra    sim.M    // extra keys for the r dict (v, k, sig, seq ...)
}

type pendingQ struct {
	Peer   *simPeer // nil: unknown destination
	To     *net.UDPAddr
	T      string
	Q      string
	A      sim.M
	Writes int // datagrams seen with this (dest, t)
	Done   bool
	First  *sim.Write
}

type simNet struct {
	y       *Sys
	peers   map[string]*simPeer // by address string
	pending []*pendingQ
	byKey   map[string]*pendingQ
	others  []OutMsg // non-query datagrams written (responses / errors)
	allQ    []*pendingQ
}

func newSimNet(y *Sys, peers ...*simPeer) *simNet {
	n := &simNet{y: y, peers: map[string]*simPeer{}, byKey: map[string]*pendingQ{}}
	for _, p := range peers {
		n.peers[p.Addr.String()] = p
	}
	return n
}

// collect classifies the datagrams written since the last call.
func (n *simNet) collect() (newQ []*pendingQ) {
	ws := n.y.Take()
	for i, o := range DecodeWrites(ws) {
		if ws[i].Err != nil {
			continue // a scripted send error: the datagram never left
		}
		if o.Y() != "q" {
			n.others = append(n.others, o)
			continue
		}
		k := o.To.String() + "|" + o.T()
		if p, ok := n.byKey[k]; ok {
			p.Writes++
			continue
		}
		p := &pendingQ{Peer: n.peers[o.To.String()], To: o.To, T: o.T(), Q: o.Q(), A: o.A(), Writes: 1, First: ws[i]}
		n.byKey[k] = p
		n.pending = append(n.pending, p)
		n.allQ = append(n.allQ, p)
		newQ = append(newQ, p)
	}
	return
}

func (n *simNet) open() (out []*pendingQ) {
	for _, p := range n.pending {
		if !p.Done {
			out = append(out, p)
		}
	}
	return
}

// replyFor builds the datagram the simulated peer sends back for p (nil: stays silent).
func (n *simNet) replyFor(p *pendingQ) []byte {
	sp := p.Peer
	if sp == nil || sp.Silent {
		return nil
	}
	if sp.ErrReply {
		return sim.ErrorMsg(p.T, 201, "generic")
	}
	id := sp.ID
	if sp.ClaimID != nil {
		id = *sp.ClaimID
	}
	r := sim.M{"id": sim.IDStr(id)}
	switch p.Q {
	case "find_node", "get_peers", "get":
		var n4, n6 string
		for _, q := range sp.Nodes {
			if ip4 := q.Addr.IP.To4(); ip4 != nil {
				n4 += sim.CompactNode(q.ID, ip4, q.Addr.Port)
			} else {
				n6 += sim.CompactNode(q.ID, q.Addr.IP.To16(), q.Addr.Port)
			}
		}
		if n4 != "" {
			r["nodes"] = n4
		}
		if n6 != "" {
			r["nodes6"] = n6
		}
		if p.Q != "find_node" {
			if sp.Token != nil {
				r["token"] = *sp.Token
			}
			if p.Q == "get_peers" && len(sp.Values) > 0 {
				var vs []interface{}
				for _, v := range sp.Values {
					vs = append(vs, v)
				}
				r["values"] = vs
			}
		}
	}
	for k, v := range sp.Extra {
		r[k] = v
	}
	return sim.Reply(p.T, r)
}

// answer delivers p's reply (if its peer answers at all) and waits for quiescence.
func (n *simNet) answer(p *pendingQ) bool {
	p.Done = true
	b := n.replyFor(p)
	if b == nil {
		return false
	}
	n.y.Conn.Inject(p.To, b)
	synctest.Wait()
	return true
}

// drain answers everything answerable until nothing new is written (virtual time does not pass).
func (n *simNet) drain() {
	for i := 0; i < 10000; i++ {
		synctest.Wait()
		n.collect()
		var next *pendingQ
		for _, p := range n.open() {
			if p.Peer != nil && !p.Peer.Silent {
				next = p
				break
			}
		}
		if next == nil {
			return
		}
		n.answer(next)
	}
}

func (n *simNet) queriesTo(addr *net.UDPAddr, method string) (out []*pendingQ) {
	for _, p := range n.allQ {
		if p.To.String() == addr.String() && (method == "" || p.Q == method) {
			out = append(out, p)
		}
	}
	return
}

func (n *simNet) summary() string {
	var s []string
	for _, p := range n.allQ {
		s = append(s, fmt.Sprintf("%s->%s x%d", p.Q, p.To, p.Writes))
	}
	sort.Strings(s)
	return fmt.Sprint(s)
}

func strp(s string) *string { return &s }

// mkPeer makes a simulated IPv4 peer with an ID in the given bucket of sim.Root.
func mkPeer(name string, lastOctet byte, bucket, n int) *simPeer {
	return &simPeer{Name: name, Addr: sim.UDP4(60, 0, 0, lastOctet, 6000+int(lastOctet)), ID: sim.InBucket(sim.Root, bucket, n), Token: strp("tok:" + name)}
}
