package props

import (
	"context"
	"fmt"
	"net"
	"net/netip"
	"strconv"
	"strings"
	"testing"
	"testing/synctest"
	"time"

	"github.com/anacrolix/dht/v2"
	"github.com/anacrolix/dht/v2/bep44"
	"github.com/anacrolix/dht/v2/int160"
	"github.com/anacrolix/dht/v2/transactions"

	"verif/explore"
	"verif/sim"
)

// C07 — a query completes only with the reply that matches it (exact source address and t).

var (
	c07A  = sim.UDP4(61, 1, 1, 1, 2000)
	c07A2 = sim.UDP4(61, 1, 1, 1, 20000) // same IP, port whose decimal string extends A's
	c07B  = sim.UDP4(62, 2, 2, 2, 2000)
	c07A6 = &net.UDPAddr{IP: net.ParseIP("2001:db8::61"), Port: 2000}
	c07AA = sim.UDP4(161, 1, 1, 1, 2000) // its text ends with A's text
)

var c07Scenarios = map[string][]string{
	"one":      {"ping@A"},
	"twosame":  {"ping@A", "ping@A"},
	"twodiff":  {"ping@A", "find@B"},
	"ports":    {"ping@A", "ping@A2", "find@B"},
	"threeA":   {"ping@A", "get@A", "ping@A"},
	"families": {"ping@A", "ping@A6"},
	"suffix":   {"ping@AA", "ping@A"},
}
var c07ScenarioOrder = []string{"one", "twosame", "twodiff", "ports", "threeA", "families", "suffix"}

func c07Addr(n string) *net.UDPAddr {
	switch n {
	case "A":
		return c07A
	case "A2":
		return c07A2
	case "B":
		return c07B
	case "A6":
		return c07A6
	case "AA":
		return c07AA
	}
	return nil
}

type c07Query struct {
	dest   *net.UDPAddr
	tid    string
	done   chan dht.QueryResult
	result *dht.QueryResult
	// reference
	refDone   bool
	refMarker string
}

func c07Letters(n int) (ls []string) {
	for i := 0; i < n; i++ {
		s := strconv.Itoa(i)
		ls = append(ls, "true:"+s, "err:"+s, "adj:"+s, "ext:"+s, "pre:"+s, "emp:"+s, "port:"+s, "ip:"+s, "long:"+s, "zz:"+s, "split:"+s, "unsplit:"+s)
		for j := 0; j < n; j++ {
			if i != j {
				ls = append(ls, "cross:"+s+":"+strconv.Itoa(j))
			}
		}
	}
	return
}

func runC07(t *testing.T, c explore.Case) (res explore.Result) {
	spec, ok := c07Scenarios[c.Unit]
	if !ok {
		res.Viol = "HARNESS: unknown scenario"
		return
	}
	p := Bubble(t, func() {
		y := NewSys(func(cfg *dht.ServerConfig) {
			cfg.QueryResendDelay = func() time.Duration { return time.Hour }
		})
		defer y.Close()
		var qs []*c07Query
		for _, s := range spec {
			kind, an, _ := strings.Cut(s, "@")
			q := &c07Query{dest: c07Addr(an), done: make(chan dht.QueryResult, 1)}
			before := y.Conn.NumWrites()
			go func() {
				switch kind {
				case "ping":
					q.done <- y.S.Ping(q.dest)
				case "find":
					q.done <- y.S.FindNode(dht.NewAddr(q.dest), int160.FromByteArray(targetT), dht.QueryRateLimiting{})
				case "get":
					q.done <- y.S.Get(context.Background(), dht.NewAddr(q.dest), bep44.Target(targetT), nil, dht.QueryRateLimiting{})
				}
			}()
			synctest.Wait()
			for _, o := range DecodeWrites(y.Conn.WritesSince(before)) {
				if o.Y() == "q" {
					q.tid = o.T()
					if o.To.String() != q.dest.String() {
						res.Viol = fmt.Sprintf("HARNESS: query went to %v not %v", o.To, q.dest)
						return
					}
				}
			}
			qs = append(qs, q)
		}
		y.Take()
		// simultaneously outstanding queries never share a transaction id
		for i := range qs {
			for j := i + 1; j < len(qs); j++ {
				if qs[i].tid == qs[j].tid {
					res.Viol = fmt.Sprintf("shared-tid: queries %d and %d outstanding at the same time both use t=%q", i, j, qs[i].tid)
					return
				}
			}
		}
		if st := y.S.Stats(); st.OutstandingTransactions != len(qs) {
			res.Viol = fmt.Sprintf("outstanding-count: %d queries started, Stats reports %d", len(qs), st.OutstandingTransactions)
			return
		}
		poll := func() {
			for _, q := range qs {
				if q.result == nil {
					select {
					case r := <-q.done:
						q.result = &r
					default:
					}
				}
			}
		}
		for step, l := range c.H {
			f := strings.Split(l, ":")
			i, _ := strconv.Atoi(f[1])
			if i >= len(qs) {
				res.Viol = "HARNESS: letter refers to a missing query"
				return
			}
			q := qs[i]
			from, tid := q.dest, q.tid
			marker := fmt.Sprintf("marker-step-%02d-xxxxx", step)[:20]
			yv := "r"
			switch f[0] {
			case "true":
			case "err":
				yv = "e"
			case "zz":
				yv = "zz"
			case "adj":
				b := []byte(tid)
				b[len(b)-1]++
				tid = string(b)
			case "ext":
				tid += "\x00"
			case "long":
				tid = "0" + tid
			case "pre":
				tid = tid[:len(tid)-1]
			case "emp":
				tid = ""
			case "port":
				// a port whose decimal representation is a prefix/extension of the real one
				from = &net.UDPAddr{IP: q.dest.IP, Port: q.dest.Port/10 + 17}
				if q.dest.Port == 2000 {
					from = &net.UDPAddr{IP: q.dest.IP, Port: 200}
				}
			case "ip":
				ip := append(net.IP(nil), q.dest.IP...)
				ip[len(ip)-1] ^= 2
				from = &net.UDPAddr{IP: ip, Port: q.dest.Port}
			case "cross":
				j, _ := strconv.Atoi(f[2])
				tid = qs[j].tid
			case "split":
				// same concatenation t||address, split at another place: leading characters of the
				// address text move into t, if what remains is still an address
				d := q.dest.String()
				for k := 1; k < len(d); k++ {
					if ap, err := netip.ParseAddrPort(d[k:]); err == nil {
						from = net.UDPAddrFromAddrPort(ap)
						tid = q.tid + d[:k]
						break
					}
				}
			case "unsplit":
				// the last byte of t moves to the front of the address text
				d := q.tid[len(q.tid)-1:] + q.dest.String()
				if ap, err := netip.ParseAddrPort(d); err == nil && len(q.tid) > 1 {
					from = net.UDPAddrFromAddrPort(ap)
					tid = q.tid[:len(q.tid)-1]
				}
			}
			var b []byte
			switch yv {
			case "r":
				b = sim.Reply(tid, sim.M{"id": marker})
			case "e":
				b = sim.ErrorMsg(tid, 201, marker)
			case "zz":
				b = sim.Enc(sim.M{"t": tid, "y": "zz", "r": sim.M{"id": marker}})
			}
			// reference: the pending query whose (address, t) this datagram carries, if any
			var hit *c07Query
			for _, x := range qs {
				if !x.refDone && x.dest.String() == from.String() && x.tid == tid {
					hit = x
				}
			}
			if hit != nil {
				hit.refDone = true
				hit.refMarker = yv + ":" + marker
			}
			ws, _ := y.Deliver(from, b)
			res.Steps++
			if len(ws) != 0 {
				res.Viol = fmt.Sprintf("reply-to-non-query: %s caused %s", l, Briefs(ws))
				return
			}
			poll()
			pending := 0
			for k, x := range qs {
				switch {
				case x.refDone && x.result == nil:
					res.Viol = fmt.Sprintf("matching-reply-ignored: query %d did not return after its own reply (%s)", k, l)
					return
				case !x.refDone && x.result != nil:
					res.Viol = fmt.Sprintf("completed-by-foreign-datagram: query %d (to %v, t=%q) returned after %s from %v with t=%q; err=%v", k, x.dest, x.tid, l, from, tid, x.result.Err)
					return
				case x.refDone:
					got := ""
					r := x.result.Reply
					switch {
					case r.Y == "e" && r.E != nil:
						got = "e:" + r.E.Msg
					case r.R != nil:
						got = r.Y + ":" + string(r.R.ID[:])
					}
					if x.result.Err != nil || got != x.refMarker {
						res.Viol = fmt.Sprintf("wrong-reply: query %d returned %q (err=%v), its own reply was %q", k, got, x.result.Err, x.refMarker)
						return
					}
				default:
					pending++
				}
			}
			if st := y.S.Stats(); st.OutstandingTransactions != pending {
				res.Viol = fmt.Sprintf("outstanding-count: reference says %d pending after %s, Stats reports %d", pending, l, st.OutstandingTransactions)
				return
			}
		}
		var key []string
		for _, x := range qs {
			if x.refDone {
				key = append(key, x.refMarker[:1])
			} else {
				key = append(key, "p")
			}
		}
		// no dedup key: a non-matching datagram must leave no trace, but whether it does is
		// exactly what is being checked, so sequences are not merged by visible status
		res.Outcome = strings.Join(key, "")
		// let the rest time out
		time.Sleep(3 * time.Hour)
		synctest.Wait()
		poll()
		for k, x := range qs {
			if x.result == nil {
				res.Viol = fmt.Sprintf("never-returned: query %d still blocked after its time-out", k)
				return
			}
			if !x.refDone && x.result.Err == nil {
				res.Viol = fmt.Sprintf("completed-without-reply: query %d returned success without any matching reply", k)
				return
			}
		}
		if st := y.S.Stats(); st.OutstandingTransactions != 0 {
			res.Viol = fmt.Sprintf("outstanding-count: %d transactions left after every query returned", st.OutstandingTransactions)
		}
	})
	if p != "" && res.Viol == "" {
		res.Viol = "panic: " + p
	}
	return
}

// runC07Wrap: a query stays outstanding while exactly n-1 further transaction IDs are issued (n in
// the history); the n-th later query must not share its ID. IDs are drawn from the process-wide
// issuer the Server uses, so the intermediate "queries" are replaced by direct Issue() calls.
func runC07Wrap(t *testing.T, c explore.Case) (res explore.Result) {
	p := Bubble(t, func() {
		y := NewSys(func(cfg *dht.ServerConfig) {
			cfg.QueryResendDelay = func() time.Duration { return time.Hour }
		})
		defer y.Close()
		tidOf := func(dest *net.UDPAddr) string {
			before := y.Conn.NumWrites()
			go y.S.Ping(dest)
			synctest.Wait()
			for _, o := range DecodeWrites(y.Conn.WritesSince(before)) {
				if o.Y() == "q" && o.To.String() == dest.String() {
					return o.T()
				}
			}
			return "?"
		}
		first := tidOf(c07A)
		issued := 0
		for _, l := range c.H {
			n, _ := strconv.Atoi(l)
			for issued < n-1 {
				transactions.DefaultIdIssuer.Issue()
				issued++
			}
			tid := tidOf(c07B)
			issued++
			res.Steps++
			if tid == first {
				res.Viol = fmt.Sprintf("shared-tid: a query outstanding to %v and the %d-th query issued after it (to %v) both use t=%q", c07A, n, c07B, tid)
				return
			}
			// the first query is still outstanding and must still complete only by its own reply
			y.Deliver(c07B, sim.Reply(tid, sim.M{"id": sim.IDStr(peerID)}))
		}
		if st := y.S.Stats(); st.OutstandingTransactions != 1 {
			res.Viol = fmt.Sprintf("outstanding-count: expected only the first query to be pending, Stats reports %d", st.OutstandingTransactions)
		}
		time.Sleep(3 * time.Hour) // let the first query time out
		synctest.Wait()
	})
	if p != "" && res.Viol == "" {
		res.Viol = "panic: " + p
	}
	res.Outcome = "wrap-ok"
	return
}

// sync-level tier (schedule explorer), present only in overlay builds (build tag verife2)
var (
	c07SyncTier   func(t *testing.T, w *explore.Worker, idx *int)
	c07SyncReplay func(t *testing.T, c explore.Case) explore.Result
)

func init() {
	runners["C07"] = func(t *testing.T, c explore.Case) explore.Result {
		if strings.HasPrefix(c.Unit, "sync;") {
			if c07SyncReplay == nil {
				return explore.Result{Viol: "HARNESS: sync tier not built"}
			}
			return c07SyncReplay(t, c)
		}
		if c.Unit == "wrap" {
			return runC07Wrap(t, c)
		}
		return runC07(t, c)
	}
}

func TestC07(t *testing.T) {
	w := explore.NewWorker("C07")
	defer w.Finish()
	depth := 3
	if w.Thorough() {
		depth = 4
	}
	w.Bound("depth", depth)
	w.SetRule("6 scenarios of 1-3 concurrently outstanding queries (same destination twice, different destinations, same IP with ports 2000/20000, ping+get+ping to one address, IPv4+IPv6); BFS over datagram sequences whose letters are built from the observed transaction ids: own reply, own error, unknown y, adjacent / extended / prefixed / truncated / empty t, right t from another port (decimal prefix of the real one) or another IP, another pending query's t; each reply carries a unique marker; reference = the pending query with exactly this (address, t); states deduplicated by per-query status; every sequence ends with the remaining queries timing out; plus, at lock / socket-write granularity under the schedule explorer, one Query racing its reply, a reply with the right t from another port, the caller's cancellation and a following query to another address that nobody answers (no query may complete with a reply that was not delivered from its own address)")
	idx := 0
	if w.Mine(idx) {
		w.BeginUnit(idx, "wrap")
		c := explore.Case{Prop: "C07", Unit: "wrap", H: []string{"128", "256", "16384", "65536", "16777216"}}
		w.Journal(c)
		w.Record(c, runC07Wrap(t, c))
	}
	idx++
	for _, sn := range c07ScenarioOrder {
		alpha := c07Letters(len(c07Scenarios[sn]))
		for _, first := range alpha {
			u := idx
			idx++
			if !w.Mine(u) {
				continue
			}
			w.BeginUnit(u, sn+";first="+first)
			b := &explore.BFS{W: w, Unit: sn, Alphabet: alpha, Prefix: []string{first}, MaxDepth: depth - 1, DetCheck: 1,
				Run: func(c explore.Case) explore.Result { return runC07(t, c) }}
			// dedup would hide replays/duplicates of the same letter: keep the key but also
			// explore duplicates explicitly at depth 2 via the alphabet itself
			b.Explore()
			w.Flush(false)
		}
	}
	if c07SyncTier != nil {
		c07SyncTier(t, w, &idx)
	}
}
