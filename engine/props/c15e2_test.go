//go:build verife2

package props

import (
	"fmt"
	"testing"

	"github.com/anacrolix/dht/v2/verifsched"

	"verif/explore"
)

// TestC15RD — race-directed stage of the C15 check. It is built and run only when the free-running
// race pass (TestRaceC15) reported unsynchronised accesses: the reported source lines then carry
// scheduling points (overlay, rewrite -racepoints), and all interleavings of three concurrent
// decode + re-encode jobs over those points (and every synchronisation operation) are explored,
// each job compared with its sequential result. A race that cannot change a result stays silent.

func runC15RD(t *testing.T, exp []string, prefix []int) (x explore.Exec) {
	var c *e2Ctl
	var viol string
	pan := Bubble(t, func() {
		c = newE2(prefix, 3000)
		defer c.done()
		c.S.Fine = true
		ds := c15ConcDatagrams()
		got := make([]string, len(ds))
		done := 0
		for i := range ds {
			i := i
			go func() {
				verifsched.Tag(fmt.Sprintf("h:decoder%d", i))
				verifsched.Point("start")
				got[i] = c15ConcJob(ds[i])
				done++
			}()
		}
		if !c.loop(nil) {
			if c.err == "" {
				viol = "horizon: the decoders do not finish"
			}
			return
		}
		if done < len(ds) {
			viol = "deadlock: a decoder never returned"
			return
		}
		for i := range ds {
			if got[i] != exp[i] {
				viol = fmt.Sprintf("concurrent-roundtrip-mismatch: datagram %d decoded while other goroutines decode gives %s; alone it gives %s", i, clip(got[i], 500), clip(exp[i], 500))
				return
			}
		}
	})
	if c != nil {
		x.Points = c.points
		x.Trace = explore.TraceOf(c.points)
		x.Err = c.err
	}
	if pan != "" && viol == "" && x.Err == "" {
		viol = "bubble: " + firstLineOf(pan)
	}
	x.Res.Steps = len(x.Points)
	x.Res.Outcome = "decoders ok"
	if viol != "" {
		x.Res.Viol = viol + " [schedule: " + c13Sched(x.Points) + "]"
	}
	return
}

func clip(s string, n int) string {
	if len(s) > n {
		return s[:n] + "..."
	}
	return s
}

func TestC15RD(t *testing.T) {
	w := explore.NewWorker("C15")
	defer w.Finish()
	w.SetRule("race-directed stage: three concurrent decode + re-encode jobs; scheduling points at every synchronisation operation and at the source lines the race detector reported")
	exp, v := c15ConcExpected()
	unit := "sync;scn=decoders3"
	if !w.Mine(0) {
		return
	}
	w.BeginUnit(0, unit)
	if v != "" {
		w.Violate(explore.Case{Prop: "C15", Unit: unit}, v)
		return
	}
	pb := 2
	if w.Thorough() {
		pb = 3
	}
	w.Bound("race_directed_preemption_bound", pb)
	d := &explore.DFS{W: w, Unit: unit, Preempt: pb, Observe: 0, DetCheck: 2, MaxViol: 3,
		Run: func(prefix []int) explore.Exec { return runC15RD(t, exp, prefix) }}
	d.Explore()
	w.Note(fmt.Sprintf("%s: %d executions, max %d scheduling points", unit, d.Executions, d.MaxPoints))
}

func init() {
	c15SyncReplay = func(t *testing.T, c explore.Case) explore.Result {
		exp, v := c15ConcExpected()
		if v != "" {
			return explore.Result{Viol: v}
		}
		ch, _ := explore.HToChoices(c.H)
		x := runC15RD(t, exp, ch)
		if x.Err != "" {
			return explore.Result{Viol: "HARNESS: " + x.Err}
		}
		return x.Res
	}
}
