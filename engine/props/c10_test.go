package props

import (
	"fmt"
	"net"
	"strconv"
	"strings"
	"sync"
	"testing"
	"time"

	"github.com/anacrolix/dht/v2"
	"github.com/anacrolix/dht/v2/bep44"
	"github.com/anacrolix/dht/v2/krpc"
	peer_store "github.com/anacrolix/dht/v2/peer-store"
	"github.com/anacrolix/torrent/metainfo"

	"verif/explore"
	"verif/sim"
)

// C10 — writes need a fresh token issued to the same IP. Exact virtual time: the bubble clock
// starts at 2000-01-01T00:00:00Z, which is a multiple of the 5-minute rotation interval.

type recPeerStore struct {
	mu    sync.Mutex
	inner peer_store.InMemory
	adds  []string
}

func (r *recPeerStore) AddPeer(ih peer_store.InfoHash, na krpc.NodeAddr) {
	r.mu.Lock()
	r.adds = append(r.adds, fmt.Sprintf("%x %v", ih[:2], na))
	r.mu.Unlock()
	r.inner.AddPeer(ih, na)
}
func (r *recPeerStore) GetPeers(ih peer_store.InfoHash) []krpc.NodeAddr { return r.inner.GetPeers(ih) }
func (r *recPeerStore) numAdds() int {
	r.mu.Lock()
	defer r.mu.Unlock()
	return len(r.adds)
}

type recStore struct {
	mu    sync.Mutex
	inner *bep44.Memory
	puts  []string
	dels  int
}

func newRecStore() *recStore { return &recStore{inner: bep44.NewMemory()} }
func (r *recStore) Put(i *bep44.Item) error {
	r.mu.Lock()
	r.puts = append(r.puts, fmt.Sprintf("seq=%d v=%v", i.Seq, i.V))
	r.mu.Unlock()
	return r.inner.Put(i)
}
func (r *recStore) Get(t bep44.Target) (*bep44.Item, error) { return r.inner.Get(t) }
func (r *recStore) Del(t bep44.Target) error {
	r.mu.Lock()
	r.dels++
	r.mu.Unlock()
	return r.inner.Del(t)
}
func (r *recStore) numPuts() int {
	r.mu.Lock()
	defer r.mu.Unlock()
	return len(r.puts)
}

var c10Issue = []time.Duration{0, 1, time.Second, 150 * time.Second, 299 * time.Second, 5*time.Minute - 1}

func c10Delays() (ds []time.Duration) {
	ds = append(ds, 0, time.Second, 5*time.Minute, 10*time.Minute-time.Second, 10*time.Minute, 10*time.Minute+1)
	for d := 10*time.Minute + 30*time.Second; d <= 15*time.Minute; d += 30 * time.Second {
		ds = append(ds, d)
	}
	ds = append(ds, 15*time.Minute+1, 15*time.Minute+time.Second, 20*time.Minute, 24*time.Hour)
	return
}

func c10Variants() (vs []string) {
	vs = append(vs, "exact", "empty", "absent", "ext1", "ext20", "foreign", "otherip")
	for n := 0; n < 20; n++ {
		vs = append(vs, fmt.Sprintf("trunc%d", n))
	}
	for b := 0; b < 160; b++ {
		vs = append(vs, fmt.Sprintf("flip%d", b))
	}
	return
}

type c10Params struct {
	via, method, user, variant string
	issue, delay               time.Duration
	gap                        time.Duration // > 0: the same source had fetched an earlier token, gap before the one at "issue"+gap
	first                      time.Duration // > 0: the token was already used once, successfully or not, at this age
}

func (p c10Params) Case() explore.Case {
	return explore.Case{Prop: "C10", Unit: "via=" + p.via + ";method=" + p.method,
		H: append([]string{"issue=" + strconv.FormatInt(int64(p.issue), 10), "delay=" + strconv.FormatInt(int64(p.delay), 10), "user=" + p.user, "variant=" + p.variant},
			append(map[bool][]string{true: {"gap=" + strconv.FormatInt(int64(p.gap), 10)}, false: nil}[p.gap > 0],
				map[bool][]string{true: {"first=" + strconv.FormatInt(int64(p.first), 10)}, false: nil}[p.first > 0]...)...)}
}

func parseC10(c explore.Case) (p c10Params) {
	for _, kv := range strings.Split(c.Unit, ";") {
		if v, ok := strings.CutPrefix(kv, "via="); ok {
			p.via = v
		}
		if v, ok := strings.CutPrefix(kv, "method="); ok {
			p.method = v
		}
	}
	for _, h := range c.H {
		if v, ok := strings.CutPrefix(h, "issue="); ok {
			n, _ := strconv.ParseInt(v, 10, 64)
			p.issue = time.Duration(n)
		}
		if v, ok := strings.CutPrefix(h, "delay="); ok {
			n, _ := strconv.ParseInt(v, 10, 64)
			p.delay = time.Duration(n)
		}
		if v, ok := strings.CutPrefix(h, "gap="); ok {
			n, _ := strconv.ParseInt(v, 10, 64)
			p.gap = time.Duration(n)
		}
		if v, ok := strings.CutPrefix(h, "first="); ok {
			n, _ := strconv.ParseInt(v, 10, 64)
			p.first = time.Duration(n)
		}
		if v, ok := strings.CutPrefix(h, "user="); ok {
			p.user = v
		}
		if v, ok := strings.CutPrefix(h, "variant="); ok {
			p.variant = v
		}
	}
	return
}

func c10Mutate(tok, variant, foreign, otherip string) (string, bool) {
	switch {
	case variant == "exact":
		return tok, true
	case variant == "empty":
		return "", true
	case variant == "absent":
		return "", false
	case variant == "ext1":
		return tok + "\x00", true
	case variant == "ext20":
		return tok + tok, true
	case variant == "foreign":
		return foreign, true
	case variant == "otherip":
		return otherip, true
	case strings.HasPrefix(variant, "trunc"):
		n, _ := strconv.Atoi(variant[5:])
		if n > len(tok) {
			n = len(tok)
		}
		return tok[:n], true
	case strings.HasPrefix(variant, "flip"):
		n, _ := strconv.Atoi(variant[4:])
		b := []byte(tok)
		if n/8 < len(b) {
			b[n/8] ^= 1 << uint(n%8)
		}
		return string(b), true
	}
	return tok, true
}

func runC10(t *testing.T, c explore.Case) (res explore.Result) {
	if strings.HasPrefix(c.Unit, "lin;") {
		if linReplays["C10"] == nil {
			return explore.Result{Viol: "HARNESS: serializability tier not built"}
		}
		return linReplays["C10"](t, c)
	}
	p := parseC10(c)
	issuer := srcV4
	user, ok := sources[p.user]
	if !ok {
		res.Viol = "HARNESS: unknown user"
		return
	}
	pn := Bubble(t, func() {
		ps := &recPeerStore{}
		st := newRecStore()
		var cbMu sync.Mutex
		callbacks := 0
		y := NewSys(func(cfg *dht.ServerConfig) {
			if p.via == "get_peers" {
				cfg.PeerStore = ps
			}
			cfg.Store = st
			cfg.OnAnnouncePeer = func(metainfo.Hash, net.IP, int, bool) {
				cbMu.Lock()
				callbacks++
				cbMu.Unlock()
			}
		})
		defer y.Close()
		// a second server with its own secret, for foreign tokens
		y2 := NewSys(WithPeerStore())
		defer y2.Close()
		time.Sleep(p.issue)
		tok0 := ""
		if p.gap > 0 {
			// an earlier token for the same source; "first" uses it, "exact" the later one
			tok0 = y.fetchToken(issuer, p.via)
			time.Sleep(p.gap)
		}
		tok := y.fetchToken(issuer, p.via)
		if len(tok) == 0 {
			res.Viol = "no-token: server handed out no token in its " + p.via + " reply"
			return
		}
		foreign := y2.fetchToken(issuer, "get_peers")
		otherip := y.fetchToken(srcOther, p.via)
		y.Take()
		if p.first > 0 && p.first < p.delay {
			// an earlier use of the very same token (a verdict on it must not outlive the token)
			time.Sleep(p.first)
			y.Deliver(user, sim.Query("w0", "announce_peer", sim.M{"id": sim.IDStr(peerID), "info_hash": sim.IDStr(ihA), "port": 6880, "token": tok}))
			y.Take()
			time.Sleep(p.delay - p.first)
		} else {
			time.Sleep(p.delay)
		}
		res.Steps = 2
		use, present := c10Mutate(tok, p.variant, foreign, otherip)
		age := p.delay // age of the token that is used
		if p.variant == "first" {
			use, present, age = tok0, true, p.delay+p.gap
			if tok0 == "" {
				res.Viol = "no-token: server handed out no token in its first " + p.via + " reply"
				return
			}
		}
		a := sim.M{"id": sim.IDStr(peerID)}
		if present {
			a["token"] = use
		}
		switch p.method {
		case "announce_peer":
			a["info_hash"] = sim.IDStr(ihB)
			a["port"] = 6881
		case "put":
			a["v"] = "immutable value"
			a["seq"] = 0
		case "putnoseq": // a put that also lacks seq: with a bad token it must still be met with silence
			a["v"] = "immutable value"
		case "annnoport": // announce_peer with neither port nor implied_port
			a["info_hash"] = sim.IDStr(ihB)
		case "putm":
			pub := pubOf(bepKey1)
			encV := sim.Enc("mutable value")
			a["v"] = "mutable value"
			a["seq"] = 1
			a["k"] = string(pub[:])
			a["sig"] = string(refSign(bepKey1, nil, 1, encV))
		}
		method := p.method
		switch method {
		case "putm", "putnoseq":
			method = "put"
		case "annnoport":
			method = "announce_peer"
		}
		putsBefore, addsBefore := st.numPuts(), ps.numAdds()
		cbMu.Lock()
		cbBefore := callbacks
		cbMu.Unlock()
		ws, delivered := y.Deliver(user, sim.Query("wq", method, a))
		if !delivered {
			res.Viol = "not-consumed: serve loop did not take the datagram"
			return
		}
		cbMu.Lock()
		cb := callbacks
		cbMu.Unlock()
		effect := st.numPuts() > putsBefore || ps.numAdds() > addsBefore || cb > cbBefore
		var wantEffect bool // what kind of effect is expected on acceptance
		_ = wantEffect
		replied := len(ws) > 0
		// classification
		sameIP := user.IP.Equal(issuer.IP)
		exact := p.variant == "exact" || p.variant == "first"
		mustAccept := exact && sameIP && age <= 10*time.Minute
		mustReject := !exact || !sameIP || age > 15*time.Minute
		desc := fmt.Sprintf("%s via %s: token %s, issued at +%v, used %v later by %s", p.method, p.via, p.variant, p.issue, p.delay, p.user)
		if p.gap > 0 {
			desc = fmt.Sprintf("%s via %s: two tokens issued to one source at +%v and %v later; the %s one is used %v after the second issue (%v after its own) by %s", p.method, p.via, p.issue, p.gap, map[bool]string{true: "first", false: "second"}[p.variant == "first"], p.delay, age, p.user)
		}
		if p.first > 0 {
			desc += fmt.Sprintf(" (the same token had already been used once, %v after issue)", p.first)
		}
		incomplete := p.method == "putnoseq" || p.method == "annnoport"
		switch {
		case incomplete && mustReject && (replied || effect):
			res.Viol = fmt.Sprintf("bad-token-honoured: %s: replied=%v (%s) effect=%v", desc, replied, Briefs(ws), effect)
		case incomplete:
			// with a good token what happens to an incomplete write is C08's business
		case replied != effect:
			res.Viol = fmt.Sprintf("half-effect: %s: replied=%v (%s) effect=%v", desc, replied, Briefs(ws), effect)
		case mustAccept && !(replied && effect):
			res.Viol = fmt.Sprintf("fresh-token-refused: %s: replied=%v effect=%v", desc, replied, effect)
		case mustReject && (replied || effect):
			res.Viol = fmt.Sprintf("bad-token-honoured: %s: replied=%v (%s) effect=%v", desc, replied, Briefs(ws), effect)
		}
		if res.Viol == "" && replied && !incomplete {
			outs := DecodeWrites(ws)
			if len(outs) != 1 || outs[0].Y() != "r" {
				res.Viol = fmt.Sprintf("wrong-reply: %s: %s", desc, Briefs(ws))
			}
		}
		if replied {
			res.Outcome = "accepted"
		} else {
			res.Outcome = "rejected"
		}
		if !mustAccept && !mustReject {
			res.Outcome += "-in-window"
		}
	})
	if pn != "" && res.Viol == "" {
		res.Viol = "panic: " + pn
	}
	return
}

func init() { runners["C10"] = runC10 }

func TestC10(t *testing.T) {
	w := explore.NewWorker("C10")
	defer w.Finish()
	w.SetRule("time grid: 6 issue offsets within the 5-minute rotation x 20 use delays around the 10 and 15 minute bounds (to the nanosecond) x users {same address, same IP other port, v4-mapped form} x {announce_peer, immutable put, mutable put} x token obtained by {get_peers, get}, exact token; two tokens issued to one source 1 s .. 6 min apart (3 offsets x 4 gaps x 20 delays, either token used); a token used once at 9 / 14 / 14:59 min and again after its expiry (from the same or another port); token mutations: 160 single-bit flips, 20 truncations, 2 extensions, empty, absent, token of a second server, token issued to another IP; foreign users (other IPv4, IPv6) with the exact token; recording peer store / BEP 44 store / announce callback observe effects; oracle demands acceptance up to 10 min, rejection beyond 15 min and for every non-exact or foreign-IP token, and reply <=> effect")
	idx := 0
	lidx := 1000
	if lt := linTiers["C10"]; lt != nil {
		lt(t, w, &lidx)
	}
	run := func(p c10Params) {
		c := p.Case()
		w.Journal(c)
		r := runC10(t, c)
		w.Record(c, r)
		w.AddStates(1)
	}
	for _, via := range []string{"get_peers", "get"} {
		for _, method := range []string{"announce_peer", "put", "putm"} {
			// time grid
			for _, is := range c10Issue {
				u := idx
				idx++
				if !w.Mine(u) {
					continue
				}
				w.BeginUnit(u, fmt.Sprintf("grid via=%s method=%s issue=%v", via, method, is))
				for _, d := range c10Delays() {
					for _, user := range []string{"v4", "v4b", "mapped"} {
						run(c10Params{via, method, user, "exact", is, d, 0, 0})
					}
				}
				w.Flush(false)
			}
			// two tokens for one source: a re-issue across a rotation boundary must not shorten the life
			// of either token
			if method != "putm" {
				u := idx
				idx++
				if w.Mine(u) {
					w.BeginUnit(u, fmt.Sprintf("reissue via=%s method=%s", via, method))
					for _, is := range []time.Duration{time.Second, 4 * time.Minute, 299 * time.Second} {
						for _, gap := range []time.Duration{time.Second, 2 * time.Minute, 5*time.Minute - 1, 6 * time.Minute} {
							for _, d := range c10Delays() {
								for _, v := range []string{"exact", "first"} {
									run(c10Params{via: via, method: method, user: "v4", variant: v, issue: is, delay: d, gap: gap})
								}
							}
						}
					}
					w.Flush(false)
				}
			}
			// a token that was already used once late in its life is used again after its expiry
			if method != "putm" {
				u := idx
				idx++
				if w.Mine(u) {
					w.BeginUnit(u, fmt.Sprintf("reuse via=%s method=%s", via, method))
					for _, is := range []time.Duration{0, time.Second} {
						for _, first := range []time.Duration{9 * time.Minute, 14 * time.Minute, 14*time.Minute + 59*time.Second} {
							for _, d := range []time.Duration{15*time.Minute + 1, 16 * time.Minute, 19 * time.Minute, 21 * time.Minute} {
								for _, user := range []string{"v4", "v4b"} {
									run(c10Params{via: via, method: method, user: user, variant: "exact", issue: is, delay: d, first: first})
								}
							}
						}
					}
					w.Flush(false)
				}
			}
			// mutations and foreign users
			if method == "put" {
				u := idx
				idx++
				if w.Mine(u) {
					w.BeginUnit(u, "incomplete writes via="+via)
					for _, m2 := range []string{"putnoseq", "annnoport"} {
						for _, v := range []string{"exact", "empty", "absent", "flip0", "flip159", "trunc19", "foreign", "otherip"} {
							run(c10Params{via, m2, "v4", v, time.Second, time.Second, 0, 0})
						}
						run(c10Params{via, m2, "v4", "exact", time.Second, 16 * time.Minute, 0, 0})
					}
					w.Flush(false)
				}
			}
			u := idx
			idx++
			if w.Mine(u) {
				w.BeginUnit(u, fmt.Sprintf("mutations via=%s method=%s", via, method))
				for _, v := range c10Variants() {
					run(c10Params{via, method, "v4", v, time.Second, time.Second, 0, 0})
				}
				for _, user := range []string{"other", "v6"} {
					for _, d := range []time.Duration{0, time.Second, 6 * time.Minute} {
						run(c10Params{via, method, user, "exact", time.Second, d, 0, 0})
					}
				}
				w.Flush(false)
			}
		}
	}
}
