package props

import (
	"encoding/hex"
	"fmt"
	"net"

	"github.com/anacrolix/dht/v2/krpc"
	"github.com/anacrolix/torrent/bencode"

	"verif/sim"
)

// Concurrent decoders (C15 with more than one goroutine in the codec at once: a process usually
// runs an IPv4 and an IPv6 Server, each with its own reader). The same job bodies are used by the
// free-running race pass (TestRaceC15) and by the schedule explorer (TestC15RD).

func c15ConcDatagrams() [][]byte {
	id := func(b byte) sim.ID { return sim.InBucket(sim.Root, int(b%100), int(b)) }
	v6 := func(b byte) net.IP { return net.IP{0x20, 1, 0xd, 0xb8, 0, 0, 0, 0, 0, 0, 0, 0, 0, 0, b, b + 1} }
	node6 := func(b byte) string { return sim.IDStr(id(b)) + string(v6(b)) + string([]byte{0x1b, b}) }
	return [][]byte{
		sim.Reply("t1", sim.M{"id": sim.IDStr(id(1)),
			"nodes":  sim.CompactNode(id(2), net.IP{11, 2, 3, 4}, 1102) + sim.CompactNode(id(3), net.IP{12, 2, 3, 4}, 1203),
			"values": []interface{}{sim.Compact(net.IP{13, 1, 1, 1}, 1301), sim.Compact(net.IP{14, 1, 1, 1}, 1401)}}),
		sim.Reply("t2", sim.M{"id": sim.IDStr(id(4)),
			"nodes":  sim.CompactNode(id(5), net.IP{21, 2, 3, 4}, 2102) + sim.CompactNode(id(6), net.IP{22, 2, 3, 4}, 2203),
			"nodes6": node6(7) + node6(8),
			"values": []interface{}{string(v6(9)) + "\x23\x01"}}),
		sim.Reply("t3", sim.M{"id": sim.IDStr(id(10)),
			"nodes6":  node6(11),
			"samples": sim.IDStr(id(12)) + sim.IDStr(id(13)), "num": 2, "interval": 60}),
	}
}

// c15ConcJob decodes one datagram and re-encodes the result; the rendering contains everything the
// round trip is judged on.
func c15ConcJob(b []byte) (out string) {
	if p := guard(func() {
		var m krpc.Msg
		if err := bencode.Unmarshal(b, &m); err != nil {
			out = "decode-error: " + err.Error()
			return
		}
		re, err := bencode.Marshal(m)
		if err != nil {
			out = "encode-error: " + err.Error() + " for " + c15ConcDesc(m)
			return
		}
		out = "{" + c15ConcDesc(m) + "} -> " + hex.EncodeToString(re)
	}); p != "" {
		out = "panic: " + p
	}
	return
}

func c15ConcExpected() (exp []string, viol string) {
	for i, d := range c15ConcDatagrams() {
		e := c15ConcJob(d)
		if len(e) < 12 || e[:1] != "{" {
			return nil, fmt.Sprintf("concurrent-decode: datagram %d does not round-trip even alone: %s", i, e)
		}
		exp = append(exp, e)
	}
	return
}

func c15ConcDesc(m krpc.Msg) string {
	s := fmt.Sprintf("t=%q y=%q", m.T, m.Y)
	if r := m.R; r != nil {
		s += fmt.Sprintf(" id=%x nodes=%v nodes6=%v values=%v", r.ID, r.Nodes, r.Nodes6, r.Values)
		if r.Samples != nil {
			s += fmt.Sprintf(" samples=%x", *r.Samples)
		}
	}
	return s
}
