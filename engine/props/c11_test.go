package props

import (
	"fmt"
	"net"
	"sort"
	"strconv"
	"strings"
	"sync"
	"testing"
	"testing/synctest"

	"github.com/anacrolix/dht/v2"
	"github.com/anacrolix/dht/v2/krpc"
	peer_store "github.com/anacrolix/dht/v2/peer-store"
	"github.com/anacrolix/torrent/metainfo"

	"verif/explore"
	"verif/sim"
)

// C11 — announced peers come back from get_peers, and only those; BEP 32 widths; token present.

// letters: A:<src>:<ih>:<port>:<implied>   announce (token fetched from the same source first)
//
//	W:<src>:<ih>:<port>:<implied>   announce with a wrong token (must have no effect)
var c11Srcs = []string{"v4", "mapped", "v4b", "v6", "other"}

func c11Alphabet(thorough bool) (ls []string) {
	ports := [][2]string{{"1", "0"}, {"80", "1"}, {"65535", "0"}}
	if thorough {
		ports = append(ports, [2]string{"6881", "1"})
	}
	for _, s := range c11Srcs {
		for _, ih := range []string{"A", "B"} {
			for _, p := range ports {
				ls = append(ls, "A:"+s+":"+ih+":"+p[0]+":"+p[1])
			}
		}
	}
	ls = append(ls, "W:v4:A:9:0", "W:v6:B:9:1")
	return
}

type c11Ref struct {
	// (ih, raw ip bytes) -> endpoint
	m map[string]krpc.NodeAddr
}

func (r *c11Ref) key(ih string, ip net.IP) string { return ih + "|" + string(ip) }

func ihOf(name string) sim.ID {
	if name == "A" {
		return ihA
	}
	return ihB
}

// gated peer store for the schedule case
type gatedStore struct {
	inner peer_store.InMemory
	mu    sync.Mutex
	gates []chan struct{}
}

func (g *gatedStore) AddPeer(ih peer_store.InfoHash, na krpc.NodeAddr) {
	ch := make(chan struct{})
	g.mu.Lock()
	g.gates = append(g.gates, ch)
	g.mu.Unlock()
	<-ch
	g.inner.AddPeer(ih, na)
}
func (g *gatedStore) GetPeers(ih peer_store.InfoHash) []krpc.NodeAddr { return g.inner.GetPeers(ih) }

func (y *Sys) c11Announce(srcName, ihName string, port int, implied bool, wrongToken bool) (ws []*sim.Write, tokOK bool) {
	src := sources[srcName]
	tok := y.fetchToken(src, "get_peers")
	if tok == "" {
		return nil, false
	}
	if wrongToken {
		tok = tok[:len(tok)-1] + string(rune(tok[len(tok)-1]^1))
	}
	a := sim.M{"id": sim.IDStr(peerID), "info_hash": sim.IDStr(ihOf(ihName)), "port": port, "token": tok}
	if implied {
		a["implied_port"] = 1
	}
	ws, _ = y.Deliver(src, sim.Query("an", "announce_peer", a))
	return ws, true
}

// probe all get_peers combinations against the reference map
func (y *Sys) c11Probe(ref *c11Ref) string {
	for _, ihName := range []string{"A", "B"} {
		for _, wn := range []string{"none", "n4", "n6", "both"} {
			for _, rn := range []string{"probe", "v6"} {
				req := sources[rn]
				a := sim.M{"id": sim.IDStr(peerID), "info_hash": sim.IDStr(ihOf(ihName))}
				if w := c09Wants[wn]; w != nil {
					a["want"] = w
				}
				ws, _ := y.Deliver(req, sim.Query("gp", "get_peers", a))
				outs := DecodeWrites(ws)
				ctx := fmt.Sprintf(" [get_peers ih=%s want=%s from=%s]", ihName, wn, rn)
				if len(outs) != 1 || outs[0].Y() != "r" {
					return "no-reply: " + Briefs(ws) + ctx
				}
				r := outs[0].R()
				if tok, ok := sim.Str(r, "token"); !ok || tok == "" {
					return "missing-token: get_peers reply carries no token" + ctx
				}
				is4 := req.IP.To4() != nil
				want4, want6 := is4, !is4
				switch wn {
				case "n4":
					want4, want6 = true, false
				case "n6":
					want4, want6 = false, true
				case "both":
					want4, want6 = true, true
				}
				var vals []interface{}
				if v, ok := r["values"]; ok {
					l, isList := v.([]interface{})
					if !isList {
						return "malformed-values: not a list" + ctx
					}
					vals = l
				}
				got := map[string]bool{}
				for _, v := range vals {
					s, ok := v.(string)
					if !ok {
						return "malformed-values: entry is not a string" + ctx
					}
					switch len(s) {
					case 6:
						if !want4 {
							return fmt.Sprintf("bep32-width: 6-byte entry sent to a requester that does not want IPv4") + ctx
						}
					case 18:
						if !want6 {
							return fmt.Sprintf("bep32-width: 18-byte entry sent to a requester that does not want IPv6") + ctx
						}
					default:
						return fmt.Sprintf("bep32-width: %d-byte entry in values", len(s)) + ctx
					}
					ip := net.IP(s[:len(s)-2])
					port := int(s[len(s)-2])<<8 | int(s[len(s)-1])
					// must be an announced endpoint of this infohash
					found := false
					for k, ep := range ref.m {
						if strings.HasPrefix(k, ihName+"|") && ep.IP.Equal(ip) && ep.Port == port {
							found = true
						}
					}
					if !found {
						return fmt.Sprintf("unannounced-endpoint: %v:%d was never announced for infohash %s (or was replaced)", ip, port, ihName) + ctx
					}
					got[ip.To16().String()+":"+strconv.Itoa(port)] = true
				}
				for k, ep := range ref.m {
					if !strings.HasPrefix(k, ihName+"|") {
						continue
					}
					fam4 := ep.IP.To4() != nil
					if (fam4 && want4) || (!fam4 && want6) {
						if !got[ep.IP.To16().String()+":"+strconv.Itoa(ep.Port)] {
							return fmt.Sprintf("missing-endpoint: announced %v:%d for infohash %s not returned", ep.IP, ep.Port, ihName) + ctx
						}
					}
				}
			}
		}
	}
	return ""
}

func runC11(t *testing.T, c explore.Case) (res explore.Result) {
	if strings.HasPrefix(c.Unit, "lin;") {
		if linReplays["C11"] == nil {
			return explore.Result{Viol: "HARNESS: serializability tier not built"}
		}
		return linReplays["C11"](t, c)
	}
	if c.Unit == "schedule" {
		return runC11Schedule(t, c)
	}
	if c.Unit == "hook" {
		return runC11Hook(t, c)
	}
	var keyParts []string
	p := Bubble(t, func() {
		y := NewSys(WithPeerStore())
		defer y.Close()
		ref := &c11Ref{m: map[string]krpc.NodeAddr{}}
		for _, l := range c.H {
			f := strings.Split(l, ":")
			if len(f) != 5 {
				res.Viol = "HARNESS: bad letter " + l
				return
			}
			port, _ := strconv.Atoi(f[3])
			implied := f[4] == "1"
			src := sources[f[1]]
			ws, ok := y.c11Announce(f[1], f[2], port, implied, f[0] == "W")
			res.Steps++
			if !ok {
				res.Viol = "missing-token: no token handed out to " + f[1]
				return
			}
			if f[0] == "A" {
				outs := DecodeWrites(ws)
				if len(outs) != 1 || outs[0].Y() != "r" {
					res.Viol = fmt.Sprintf("announce-not-acknowledged: %s got %s", l, Briefs(ws))
					return
				}
				ep := krpc.NodeAddr{IP: src.IP, Port: port}
				if implied {
					ep.Port = src.Port
				}
				ref.m[ref.key(f[2], src.IP)] = ep
			} else if len(ws) != 0 {
				res.Viol = fmt.Sprintf("bad-token-answered: %s got %s", l, Briefs(ws))
				return
			}
			if v := y.c11Probe(ref); v != "" {
				res.Viol = v + " after " + strings.Join(c.H, " ; ")
				return
			}
			res.Steps += 16
		}
		for k, ep := range ref.m {
			keyParts = append(keyParts, fmt.Sprintf("%x=%v", k, ep))
		}
	})
	if p != "" && res.Viol == "" {
		res.Viol = "panic: " + p
	}
	sort.Strings(keyParts)
	res.Key = strings.Join(keyParts, ";")
	res.Outcome = fmt.Sprintf("stored=%d", len(keyParts))
	return
}

// Schedule case: two announces from one IP (ports p1 then p2) delivered in order; the two
// asynchronous store updates are released in the order given by H ("12" or "21").
func runC11Schedule(t *testing.T, c explore.Case) (res explore.Result) {
	order := c.H[0]
	p := Bubble(t, func() {
		gs := &gatedStore{}
		y := NewSys(func(cfg *dht.ServerConfig) { cfg.PeerStore = gs })
		defer y.Close()
		tok := y.fetchToken(srcV4, "get_peers")
		for i, port := range []int{1001, 1002} {
			a := sim.M{"id": sim.IDStr(peerID), "info_hash": sim.IDStr(ihA), "port": port, "token": tok}
			ws, _ := y.Deliver(srcV4, sim.Query(fmt.Sprintf("an%d", i), "announce_peer", a))
			if len(ws) != 1 {
				res.Viol = "announce-not-acknowledged: " + Briefs(ws)
				return
			}
		}
		gs.mu.Lock()
		gates := append([]chan struct{}(nil), gs.gates...)
		gs.mu.Unlock()
		if len(gates) != 2 {
			res.Viol = fmt.Sprintf("HARNESS: expected 2 parked store updates, have %d", len(gates))
			return
		}
		for _, ch := range order {
			close(gates[int(ch-'1')])
			synctest.Wait()
			res.Steps++
		}
		ws, _ := y.Deliver(srcProbe, sim.Query("gp", "get_peers", sim.M{"id": sim.IDStr(peerID), "info_hash": sim.IDStr(ihA)}))
		outs := DecodeWrites(ws)
		if len(outs) != 1 {
			res.Viol = "no-reply: " + Briefs(ws)
			return
		}
		vals, _ := outs[0].R()["values"].([]interface{})
		var ports []string
		for _, v := range vals {
			s := v.(string)
			ports = append(ports, strconv.Itoa(int(s[4])<<8|int(s[5])))
		}
		res.Outcome = "ports=" + strings.Join(ports, ",")
		if len(ports) != 1 || ports[0] != "1002" {
			res.Viol = fmt.Sprintf("stale-endpoint: announce port 1001 then 1002 from one IP, store updates applied in order %s: get_peers returns ports %v, the later announce did not replace the earlier", order, ports)
		}
	})
	if p != "" && res.Viol == "" {
		res.Viol = "panic: " + p
	}
	return
}

// Hook case: the application's OnAnnouncePeer hook is slow (parked until the harness releases it).
// The announce was accepted and acknowledged, so get_peers must return the endpoint whether or not
// the hook has returned yet. H: "blocked" (probe while the hook is parked) or "released".
func runC11Hook(t *testing.T, c explore.Case) (res explore.Result) {
	p := Bubble(t, func() {
		gate := make(chan struct{})
		calls := 0
		var mu sync.Mutex
		y := NewSys(WithPeerStore(), func(cfg *dht.ServerConfig) {
			cfg.OnAnnouncePeer = func(ih metainfo.Hash, ip net.IP, port int, portOk bool) {
				mu.Lock()
				calls++
				mu.Unlock()
				<-gate
			}
		})
		released := false
		defer func() {
			if !released {
				close(gate)
			}
			y.Close()
		}()
		ref := &c11Ref{m: map[string]krpc.NodeAddr{}}
		for i, src := range []string{"v4", "v6"} {
			ws, ok := y.c11Announce(src, "A", 4000+i, false, false)
			if outs := DecodeWrites(ws); !ok || len(outs) != 1 || outs[0].Y() != "r" {
				res.Viol = "announce-not-acknowledged: " + Briefs(ws)
				return
			}
			ref.m[ref.key("A", sources[src].IP)] = krpc.NodeAddr{IP: sources[src].IP, Port: 4000 + i}
			res.Steps++
		}
		synctest.Wait()
		mu.Lock()
		n := calls
		mu.Unlock()
		if n != 2 {
			res.Viol = fmt.Sprintf("hook-not-called: OnAnnouncePeer ran %d times for 2 accepted announces", n)
			return
		}
		if c.H[0] == "released" {
			released = true
			close(gate)
			synctest.Wait()
		}
		if v := y.c11Probe(ref); v != "" {
			res.Viol = v + " (two accepted and acknowledged announces; the application's OnAnnouncePeer hook is " + c.H[0] + ")"
			return
		}
		res.Steps += 16
		res.Outcome = "hook " + c.H[0]
	})
	if p != "" && res.Viol == "" {
		res.Viol = "panic: " + p
	}
	return
}

func init() { runners["C11"] = runC11 }

func TestC11(t *testing.T) {
	w := explore.NewWorker("C11")
	defer w.Finish()
	depth := 3
	if w.Thorough() {
		depth = 4
	}
	w.Bound("depth", depth)
	alpha := c11Alphabet(w.Thorough())
	w.Bound("alphabet", len(alpha))
	lidx := 1000
	if lt := linTiers["C11"]; lt != nil {
		lt(t, w, &lidx)
	}
	w.SetRule("BFS over announce histories (sources: IPv4 4-byte form, the same IPv4 in 16-byte form, same IP other port, IPv6, another IPv4; 2 infohashes; ports 1/80/65535 with and without implied_port; wrong-token announces) with the bundled in-memory peer store; after every event all 16 get_peers probes (2 infohashes x want in {absent,n4,n6,both} x IPv4/IPv6 requester) are compared with a reference map (infohash, raw IP) -> endpoint: values subset of announced endpoints, every wanted-family endpoint present, 6/18-byte widths per BEP 32, token present; plus the 2-schedule case of two announces from one IP whose asynchronous store updates are released in both orders, and the case of a slow application OnAnnouncePeer hook (probed while parked and after release)")
	idx := 0
	for _, first := range alpha {
		u := idx
		idx++
		if !w.Mine(u) {
			continue
		}
		w.BeginUnit(u, "first="+first)
		b := &explore.BFS{W: w, Unit: "ann", Alphabet: alpha, Prefix: []string{first}, MaxDepth: depth - 1, DetCheck: 1,
			Run: func(c explore.Case) explore.Result { return runC11(t, c) }}
		b.Explore()
		w.Flush(false)
	}
	if u := idx; w.Mine(u) {
		w.BeginUnit(u, "schedule")
		for _, order := range []string{"12", "21"} {
			c := explore.Case{Prop: "C11", Unit: "schedule", H: []string{order}}
			w.Journal(c)
			r := runC11Schedule(t, c)
			w.Record(c, r)
			w.AddStates(1)
		}
	}
	idx++
	if u := idx; w.Mine(u) {
		w.BeginUnit(u, "hook")
		for _, mode := range []string{"blocked", "released"} {
			c := explore.Case{Prop: "C11", Unit: "hook", H: []string{mode}}
			w.Journal(c)
			r := runC11Hook(t, c)
			w.Record(c, r)
			w.AddStates(1)
		}
	}
}
