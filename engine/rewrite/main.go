// Command rewrite generates the build-time overlay of the schedule explorer E2: import-rewritten
// copies of the non-test Go files of the explored packages of the repository (only import paths
// change: sync, github.com/anacrolix/sync, github.com/anacrolix/chansync -> scheduler shims) plus the
// shim and scheduler packages as virtual packages inside the repository's module. /repo is untouched.
package main

import (
	"encoding/json"
	"flag"
	"fmt"
	"go/ast"
	"go/parser"
	"go/printer"
	"go/token"
	"os"
	"path/filepath"
	"strconv"
	"strings"
)

const mod = "github.com/anacrolix/dht/v2"

var rewrites = map[string]string{
	"sync":                          mod + "/internal/verifshim/sync",
	"github.com/anacrolix/sync":     mod + "/internal/verifshim/sync",
	"github.com/anacrolix/chansync": mod + "/internal/verifshim/chansync",
}

// astutilAddImport appends an import spec to the first import declaration of f.
func astutilAddImport(f *ast.File, path string) {
	for _, im := range f.Imports {
		if v, _ := strconv.Unquote(im.Path.Value); v == path {
			return
		}
	}
	spec := &ast.ImportSpec{Path: &ast.BasicLit{Kind: token.STRING, Value: strconv.Quote(path)}}
	for _, d := range f.Decls {
		if gd, ok := d.(*ast.GenDecl); ok && gd.Tok == token.IMPORT {
			gd.Specs = append(gd.Specs, spec)
			if !gd.Lparen.IsValid() {
				gd.Lparen = gd.TokPos // force the parenthesised form
			}
			f.Imports = append(f.Imports, spec)
			return
		}
	}
	f.Decls = append([]ast.Decl{&ast.GenDecl{Tok: token.IMPORT, Specs: []ast.Spec{spec}}}, f.Decls...)
	f.Imports = append(f.Imports, spec)
}

// insertRacePoints inserts verifsched.Point("race") before the innermost statement (in a block, case
// or comm clause body) that covers each of the given lines. Returns the number of points inserted.
func insertRacePoints(fset *token.FileSet, f *ast.File, lines []int) int {
	type slot struct {
		list *[]ast.Stmt
		idx  int
		span int
	}
	best := map[int]*slot{}
	consider := func(list *[]ast.Stmt) {
		for i, st := range *list {
			from, to := fset.Position(st.Pos()).Line, fset.Position(st.End()).Line
			for _, ln := range lines {
				if ln < from || ln > to {
					continue
				}
				if b := best[ln]; b == nil || to-from < b.span || (to-from == b.span && b.list != list) {
					best[ln] = &slot{list, i, to - from}
				}
			}
		}
	}
	// the body block of a switch / select holds clauses, not statements
	clauseBlocks := map[*ast.BlockStmt]bool{}
	ast.Inspect(f, func(n ast.Node) bool {
		switch x := n.(type) {
		case *ast.SwitchStmt:
			clauseBlocks[x.Body] = true
		case *ast.TypeSwitchStmt:
			clauseBlocks[x.Body] = true
		case *ast.SelectStmt:
			clauseBlocks[x.Body] = true
		case *ast.BlockStmt:
			if !clauseBlocks[x] {
				consider(&x.List)
			}
		case *ast.CaseClause:
			consider(&x.Body)
		case *ast.CommClause:
			consider(&x.Body)
		}
		return true
	})
	// group by list, insert from the highest index down; one point per statement
	type key struct {
		list *[]ast.Stmt
		idx  int
	}
	seen := map[key]bool{}
	byList := map[*[]ast.Stmt][]int{}
	for _, b := range best {
		k := key{b.list, b.idx}
		if !seen[k] {
			seen[k] = true
			byList[b.list] = append(byList[b.list], b.idx)
		}
	}
	n := 0
	for list, idxs := range byList {
		for i := 0; i < len(idxs); i++ {
			for j := i + 1; j < len(idxs); j++ {
				if idxs[j] > idxs[i] {
					idxs[i], idxs[j] = idxs[j], idxs[i]
				}
			}
		}
		for _, i := range idxs {
			pt := &ast.ExprStmt{X: &ast.CallExpr{
				Fun:  &ast.SelectorExpr{X: ast.NewIdent("verifsched"), Sel: ast.NewIdent("Point")},
				Args: []ast.Expr{&ast.BasicLit{Kind: token.STRING, Value: strconv.Quote("race")}},
			}}
			l := *list
			l = append(l[:i], append([]ast.Stmt{pt}, l[i:]...)...)
			*list = l
			n++
		}
	}
	return n
}

func main() {
	repo := flag.String("repo", "/repo", "repository root")
	out := flag.String("out", "", "output directory")
	ov := flag.String("overlay", "", "overlay json to write")
	src := flag.String("src", "_overlay", "directory with verifsched/ and verifshim/ sources")
	goPoints := flag.Bool("gopoints", false, "insert a scheduling point at the start of every go func(){...} body")
	pkgs := flag.String("pkgs", "traversal,bep44,.", "comma-separated package directories (relative to repo) to rewrite")
	atomics := flag.Bool("atomics", false, "also rewrite sync/atomic to the scheduler shim (every atomic operation becomes a scheduling point)")
	racePts := flag.String("racepoints", "", "comma-separated <file relative to repo>:<line>: insert a scheduling point before the statement covering that line (accesses a race detector run reported as unsynchronised)")
	flag.Parse()
	if *atomics {
		rewrites["sync/atomic"] = mod + "/internal/verifshim/atomic"
	}
	// file (absolute) -> lines
	raceLines := map[string][]int{}
	pkgList := strings.Split(*pkgs, ",")
	for _, rp := range strings.Split(*racePts, ",") {
		rp = strings.TrimSpace(rp)
		if rp == "" {
			continue
		}
		i := strings.LastIndex(rp, ":")
		ln, err := strconv.Atoi(rp[i+1:])
		if i < 0 || err != nil {
			fmt.Fprintln(os.Stderr, "rewrite: bad -racepoints entry", rp)
			os.Exit(1)
		}
		abs := filepath.Join(*repo, rp[:i])
		raceLines[abs] = append(raceLines[abs], ln)
		dir := filepath.Dir(rp[:i])
		have := false
		for _, p := range pkgList {
			if filepath.Clean(strings.TrimSpace(p)) == filepath.Clean(dir) {
				have = true
			}
		}
		if !have {
			pkgList = append(pkgList, dir)
		}
	}
	replace := map[string]string{}
	must := func(err error) {
		if err != nil {
			fmt.Fprintln(os.Stderr, "rewrite:", err)
			os.Exit(1)
		}
	}
	absSrc, err := filepath.Abs(*src)
	must(err)
	// virtual packages
	for virt, dir := range map[string]string{
		"verifsched":                  "verifsched",
		"internal/verifshim/sync":     "verifshim/sync",
		"internal/verifshim/chansync": "verifshim/chansync",
		"internal/verifshim/atomic":   "verifshim/atomic",
	} {
		ents, err := os.ReadDir(filepath.Join(absSrc, dir))
		must(err)
		for _, e := range ents {
			if strings.HasSuffix(e.Name(), ".go") || strings.HasSuffix(e.Name(), ".s") {
				replace[filepath.Join(*repo, virt, e.Name())] = filepath.Join(absSrc, dir, e.Name())
			}
		}
	}
	nrew, nrace := 0, 0
	for _, p := range pkgList {
		p = strings.TrimSpace(p)
		if p == "" {
			continue
		}
		dir := filepath.Join(*repo, p)
		ents, err := os.ReadDir(dir)
		must(err)
		for _, e := range ents {
			n := e.Name()
			if e.IsDir() || !strings.HasSuffix(n, ".go") || strings.HasSuffix(n, "_test.go") {
				continue
			}
			path := filepath.Join(dir, n)
			fset := token.NewFileSet()
			f, err := parser.ParseFile(fset, path, nil, parser.ParseComments)
			must(err)
			changed := false
			// goroutine starts: `go func() { ... }()` bodies begin with a scheduling point, so that the
			// explorer also owns the moment a spawned goroutine starts to run
			if *goPoints {
				nGo := 0
				ast.Inspect(f, func(n ast.Node) bool {
					g, ok := n.(*ast.GoStmt)
					if !ok {
						return true
					}
					if fl, ok := g.Call.Fun.(*ast.FuncLit); ok && fl.Body != nil {
						pt := &ast.ExprStmt{X: &ast.CallExpr{
							Fun:  &ast.SelectorExpr{X: ast.NewIdent("verifsched"), Sel: ast.NewIdent("Point")},
							Args: []ast.Expr{&ast.BasicLit{Kind: token.STRING, Value: strconv.Quote("go")}},
						}}
						fl.Body.List = append([]ast.Stmt{pt}, fl.Body.List...)
						nGo++
					}
					return true
				})
				if nGo > 0 {
					astutilAddImport(f, mod+"/verifsched")
					changed = true
				}
			}
			if lines := raceLines[path]; len(lines) > 0 {
				if n := insertRacePoints(fset, f, lines); n > 0 {
					astutilAddImport(f, mod+"/verifsched")
					changed = true
					nrace += n
				}
			}
			for _, im := range f.Imports {
				v, _ := strconv.Unquote(im.Path.Value)
				if to, ok := rewrites[v]; ok {
					if im.Name == nil && v == "github.com/anacrolix/chansync" {
						// package name stays chansync
					}
					im.Path.Value = strconv.Quote(to)
					changed = true
				}
			}
			if !changed {
				continue
			}
			pn := strings.ReplaceAll(p, "/", "_")
			if p == "." {
				pn = "root"
			}
			dst := filepath.Join(*out, "rw", pn+"_"+n)
			must(os.MkdirAll(filepath.Dir(dst), 0o755))
			w, err := os.Create(dst)
			must(err)
			must((&printer.Config{Mode: printer.UseSpaces | printer.TabIndent, Tabwidth: 8}).Fprint(w, fset, f))
			must(w.Close())
			replace[path] = dst
			nrew++
		}
	}
	b, _ := json.MarshalIndent(map[string]any{"Replace": replace}, "", " ")
	must(os.WriteFile(*ov, b, 0o644))
	fmt.Printf("overlay: %d files rewritten, %d entries, %d race-directed points\n", nrew, len(replace), nrace)
}
