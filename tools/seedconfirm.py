#!/usr/bin/env python3
"""Confirm a seeded change delivered by a sub-agent and file it under /verif/seeded/.

usage: tools/seedconfirm.py <src-dir> <dest-name> --prop ID [--check ID[,ID]] [--needs "text"] [--tier quick]

<src-dir> holds patch.diff, demo/<path relative to the repo root>/..._test.go and README.md.
In a scratch worktree of /repo's HEAD (removed afterwards): the demonstration passes without the
change; the change applies (rebased with --3way if HEAD moved) and builds; the repository's whole
test suite passes with it (demo excluded); the demonstration fails with it. Then the named checks
are run against /repo with the change applied (and /repo is restored). Everything observed goes to
/verif/seeded/<dest-name>/meta.json next to patch.diff, demo/ and README.md.
"""
import json, os, re, shutil, subprocess, sys, tempfile

ENV = dict(os.environ, GOFLAGS="-mod=mod", GOPROXY="off", GOSUMDB="off", GOTOOLCHAIN="local")


def sh(cmd, cwd, timeout=1800):
    r = subprocess.run(cmd, cwd=cwd, env=ENV, stdout=subprocess.PIPE, stderr=subprocess.STDOUT, text=True, timeout=timeout)
    return r.returncode, r.stdout


def main():
    a = sys.argv[1:]
    src, dest = os.path.abspath(a[0]), a[1]
    opts = {"--prop": "", "--check": "", "--needs": "", "--tier": "quick"}
    i = 2
    while i < len(a):
        opts[a[i]] = a[i + 1]
        i += 2
    prop = opts["--prop"]
    checks = [c for c in opts["--check"].split(",") if c]
    out_dir = os.path.join("/verif/seeded", dest)
    meta = {"property": prop, "source": "independent sub-agent given only the property text and a scratch worktree",
            "needs_to_manifest": opts["--needs"], "ran": []}
    demos = []
    for root, _, files in os.walk(os.path.join(src, "demo")):
        for f in files:
            full = os.path.join(root, f)
            demos.append(os.path.relpath(full, os.path.join(src, "demo")))
    assert demos, "no demo files"
    tests = []
    for d in demos:
        if d.endswith(".go"):
            tests += re.findall(r"^func (Test\w+)\(", open(os.path.join(src, "demo", d)).read(), re.M)
    runpat = "^(" + "|".join(sorted(set(tests))) + ")$"
    pkgs = sorted({"./" + (os.path.dirname(d) or ".") for d in demos})
    wt = tempfile.mkdtemp(prefix="seedv-", dir="/tmp")
    os.rmdir(wt)
    ok = True
    try:
        rc, o = sh(["git", "-C", "/repo", "worktree", "add", "-q", "--detach", wt, "HEAD"], "/repo")
        assert rc == 0, o
        head = sh(["git", "rev-parse", "--short", "HEAD"], wt)[1].strip()
        meta["repo_head"] = head

        def put_demo():
            for d in demos:
                os.makedirs(os.path.dirname(os.path.join(wt, d)) or wt, exist_ok=True)
                shutil.copyfile(os.path.join(src, "demo", d), os.path.join(wt, d))

        def drop_demo():
            for d in demos:
                os.remove(os.path.join(wt, d))

        democmd = ["go", "test", "-vet=off", "-count=1", "-run", runpat] + pkgs
        put_demo()
        rc, o = sh(democmd, wt)
        meta["demo_cmd"] = " ".join(democmd)
        meta["demo_passes_without_change"] = rc == 0
        meta["ran"].append("demo on unchanged HEAD %s: rc=%d" % (head, rc))
        if rc != 0:
            meta["demo_without_output"] = o[-1500:]
            ok = False
        drop_demo()
        patch = os.path.join(src, "patch.diff")
        rc, o = sh(["git", "apply", "--check", patch], wt)
        if rc != 0:
            rc3, o3 = sh(["git", "apply", "--3way", patch], wt)
            if rc3 != 0:
                meta["error"] = "patch does not apply to HEAD: " + o[-500:]
                ok = False
            else:
                sh(["git", "reset", "-q"], wt)
                newp = sh(["git", "diff"], wt)[1]
                patch = os.path.join(wt, ".rebased.diff")
                open(patch, "w").write(newp)
                sh(["git", "checkout", "--", "."], wt)
                meta["rebased_onto_head"] = True
        if ok:
            rc, o = sh(["git", "apply", patch], wt)
            assert rc == 0, o
            rc, o = sh(["go", "build", "./..."], wt)
            meta["builds"] = rc == 0
            rcv, ov = sh(["go", "build", "-tags", "verif", "./..."], wt)
            meta["builds_with_hooks"] = rcv == 0
            if rc != 0:
                ok = False
                meta["build_output"] = o[-800:]
        if ok:
            passes, attempts, lastfail = 0, 0, ""
            while attempts < 4 and passes < 2:
                attempts += 1
                rc, o = sh(["go", "test", "-vet=off", "-count=1", "./..."], wt)
                if rc == 0:
                    passes += 1
                else:
                    lastfail = "\n".join(l for l in o.splitlines() if l.startswith("--- FAIL") or l.startswith("FAIL"))[:600]
            meta["suite_passes_with_change"] = passes >= 2
            meta["suite_runs"] = "%d/%d full-suite runs green with the change" % (passes, attempts)
            if lastfail:
                meta["suite_failures_seen"] = lastfail
            meta["ran"].append("go test -vet=off -count=1 ./... with the change: " + meta["suite_runs"])
            if passes < 2:
                ok = False
        if ok:
            put_demo()
            fails = 0
            for _ in range(3):
                rc, o = sh(democmd, wt)
                if rc != 0:
                    fails += 1
            meta["demo_fails_with_change"] = "%d/3" % fails
            meta["ran"].append("demo with the change: failed %d/3" % fails)
            if fails < 3:
                ok = False
            else:
                meta["demo_failure_output"] = "\n".join(l for l in o.splitlines() if "FAIL" in l or "rror" in l or "panic" in l)[:1200]
        meta["confirmed"] = ok
        if ok:
            os.makedirs(out_dir, exist_ok=True)
            shutil.copyfile(patch, os.path.join(out_dir, "patch.diff"))
            shutil.rmtree(os.path.join(out_dir, "demo"), ignore_errors=True)
            shutil.copytree(os.path.join(src, "demo"), os.path.join(out_dir, "demo"))
            if os.path.exists(os.path.join(src, "README.md")):
                shutil.copyfile(os.path.join(src, "README.md"), os.path.join(out_dir, "README.md"))
    finally:
        sh(["git", "-C", "/repo", "worktree", "remove", "--force", wt], "/repo")
        shutil.rmtree(wt, ignore_errors=True)
    if ok and checks:
        # run our checks against a scratch worktree carrying the change (VERIF_REPO), /repo untouched
        det = {}
        wt2 = tempfile.mkdtemp(prefix="seedc-", dir="/tmp")
        os.rmdir(wt2)
        rc, o = sh(["git", "-C", "/repo", "worktree", "add", "-q", "--detach", wt2, "HEAD"], "/repo")
        assert rc == 0, o
        try:
            rc, o = sh(["git", "apply", os.path.join(out_dir, "patch.diff")], wt2)
            assert rc == 0, o
            for c in checks:
                env = dict(ENV, VERIF_REPO=wt2, VERIF_REPLAYS_DIR="/verif/.build/mut-replays", VERIF_EVIDENCE_DIR="/verif/.build/mut-evidence")
                r = subprocess.run(["./run", c, opts["--tier"]], cwd="/verif", env=env, stdout=subprocess.PIPE, stderr=subprocess.STDOUT, text=True, timeout=7200)
                lines = [l for l in r.stdout.splitlines() if l.startswith("VIOLATION") or l.startswith("  ") and "replayed" in l]
                det[c] = {"rc": r.returncode, "detected": r.returncode == 1, "first": (lines[0][:400] if lines else r.stdout[-300:] if r.returncode not in (0, 1) else "")}
                meta["ran"].append("./run %s %s against a scratch worktree of HEAD %s with the change applied: rc=%d" % (c, opts["--tier"], meta.get("repo_head"), det[c]["rc"]))
        finally:
            sh(["git", "-C", "/repo", "worktree", "remove", "--force", wt2], "/repo")
            shutil.rmtree(wt2, ignore_errors=True)
        meta["checks"] = det
    if ok:
        json.dump(meta, open(os.path.join(out_dir, "meta.json"), "w"), indent=1)
    print(json.dumps({k: meta.get(k) for k in ("confirmed", "demo_passes_without_change", "builds", "suite_runs", "demo_fails_with_change", "rebased_onto_head", "error", "checks")}))


if __name__ == "__main__":
    main()
