package props

import (
	"fmt"
	"net"
	"os"
	"runtime"
	"runtime/debug"
	"sort"
	"strings"
	"testing"
	"testing/synctest"
	"time"

	"github.com/anacrolix/dht/v2"
	"github.com/anacrolix/dht/v2/bep44"
	"github.com/anacrolix/dht/v2/krpc"
	peer_store "github.com/anacrolix/dht/v2/peer-store"
	"github.com/anacrolix/log"
	"golang.org/x/time/rate"

	"verif/explore"
	"verif/sim"
)

func TestMain(m *testing.M) {
	log.Default.Handlers = []log.Handler{log.DiscardHandler}
	runtime.MemProfileRate = 0
	debug.SetGCPercent(400)
	os.Exit(m.Run())
}

// Sys is one real dht.Server on a fake socket inside the current bubble.
type Sys struct {
	Conn *sim.Conn
	S    *dht.Server
	Cfg  *dht.ServerConfig
	mark int // write-log position of the last TakeWrites
}

type SysOpt func(*dht.ServerConfig)

func WithPeerStore() SysOpt {
	return func(c *dht.ServerConfig) { c.PeerStore = &peer_store.InMemory{} }
}
func WithSecurity() SysOpt { return func(c *dht.ServerConfig) { c.NoSecurity = false } }
func WithPassive() SysOpt  { return func(c *dht.ServerConfig) { c.Passive = true } }
func WithVeto() SysOpt {
	return func(c *dht.ServerConfig) {
		c.OnQuery = func(*krpc.Msg, net.Addr) bool { return false }
	}
}
func WithNodeID(id sim.ID) SysOpt { return func(c *dht.ServerConfig) { c.NodeId = id } }

// NewSys must be called inside a bubble.
func NewSys(opts ...SysOpt) *Sys {
	conn := sim.NewConn()
	cfg := &dht.ServerConfig{
		NodeId:        sim.Root,
		Conn:          conn,
		NoSecurity:    true,
		StartingNodes: func() ([]dht.Addr, error) { return nil, nil },
		Store:         bep44.NewMemory(),
		Exp:           2 * time.Hour,
		SendLimiter:   rate.NewLimiter(rate.Inf, 1),
		DefaultWant:   []krpc.Want{krpc.WantNodes, krpc.WantNodes6},
	}
	for _, o := range opts {
		o(cfg)
	}
	s, err := dht.NewServer(cfg)
	if err != nil {
		panic(err)
	}
	return &Sys{Conn: conn, S: s, Cfg: cfg}
}

// Deliver injects one datagram, waits for quiescence and returns the datagrams written since
// the previous Deliver/Take, plus whether the serve loop consumed the datagram.
func (y *Sys) Deliver(from *net.UDPAddr, b []byte) (ws []*sim.Write, delivered bool) {
	inj := y.Conn.Inject(from, b)
	synctest.Wait()
	return y.Take(), inj.Delivered()
}

func (y *Sys) Take() []*sim.Write {
	ws := y.Conn.WritesSince(y.mark)
	y.mark += len(ws)
	return ws
}

func (y *Sys) Close() {
	y.S.Close()
	synctest.Wait()
}

// Bubble runs f in a fresh synctest bubble and converts a panic in the bubble's root goroutine
// or the bubble's own deadlock detection into an error string.
// bubbleStartHook is set by overlay builds (new execution epoch for the scheduler shims).
var bubbleStartHook func()

func Bubble(t *testing.T, f func()) (panicked string) {
	if bubbleStartHook != nil {
		bubbleStartHook()
	}
	defer func() {
		if r := recover(); r != nil {
			panicked = fmt.Sprint(r)
		}
	}()
	synctest.Test(t, func(t *testing.T) {
		f()
	})
	return
}

// ---- decoding helpers (generic bencode, not the krpc codec) -------------------------------------

type OutMsg struct {
	To  *net.UDPAddr
	At  time.Time
	M   sim.M
	Raw []byte
	Err error
}

func DecodeWrites(ws []*sim.Write) (out []OutMsg) {
	for _, w := range ws {
		m, err := sim.Dec(w.B)
		out = append(out, OutMsg{To: w.To, At: w.At, M: m, Raw: w.B, Err: err})
	}
	return
}

func (o OutMsg) Y() string { s, _ := sim.Str(o.M, "y"); return s }
func (o OutMsg) T() string { s, _ := sim.Str(o.M, "t"); return s }
func (o OutMsg) Q() string { s, _ := sim.Str(o.M, "q"); return s }
func (o OutMsg) R() sim.M  { return sim.Dict(o.M, "r") }
func (o OutMsg) A() sim.M  { return sim.Dict(o.M, "a") }
func (o OutMsg) ECode() int64 {
	l, _ := o.M["e"].([]interface{})
	if len(l) > 0 {
		c, _ := l[0].(int64)
		return c
	}
	return 0
}

func (o OutMsg) Brief() string {
	switch o.Y() {
	case "q":
		return fmt.Sprintf("q:%s->%s", o.Q(), o.To)
	case "r":
		keys := []string{}
		for k := range o.R() {
			keys = append(keys, k)
		}
		sort.Strings(keys)
		return fmt.Sprintf("r{%s}->%s", strings.Join(keys, ","), o.To)
	case "e":
		return fmt.Sprintf("e%d->%s", o.ECode(), o.To)
	}
	return fmt.Sprintf("?%q->%s", o.Y(), o.To)
}

func Briefs(ws []*sim.Write) string {
	var s []string
	for _, o := range DecodeWrites(ws) {
		s = append(s, o.Brief())
	}
	sort.Strings(s)
	return strings.Join(s, ",")
}

// ---- generic per-property entry helper ---------------------------------------------------------

// A Runner executes one case on a fresh instance.
type Runner func(t *testing.T, c explore.Case) explore.Result

var runners = map[string]Runner{}

// TestReplay re-executes the case in $VERIF_REPLAY and prints the oracle's verdict.
// warmups: per property, a history that exercises every single letter once in this process.
var warmups = map[string]func(t *testing.T){}

func TestReplay(t *testing.T) {
	c, ok := explore.ReplayCase()
	if !ok {
		t.Skip("VERIF_REPLAY not set")
	}
	run, ok := runners[c.Prop]
	if !ok {
		t.Fatalf("no runner for %s", c.Prop)
	}
	// Code under test may keep process-global state (caches, pools): a case that only fails after
	// other cases have run in the same process is replayed behind the property's warm-up history.
	if os.Getenv("VERIF_WARMUP") != "" {
		if wu := warmups[c.Prop]; wu != nil {
			wu(t)
		}
	}
	r := run(t, c)
	if r.Viol != "" {
		fmt.Printf("REPLAY-VIOLATION property=%s %s\n", c.Prop, r.Viol)
	} else {
		fmt.Printf("REPLAY-OK property=%s outcome=%s\n", c.Prop, r.Outcome)
	}
}

// serializability tier (lin_test.go), present only in overlay builds (build tag verife2)
var (
	linTiers   = map[string]func(t *testing.T, w *explore.Worker, idx *int){}
	linReplays = map[string]func(t *testing.T, c explore.Case) explore.Result{}
)
