// Package atomic is the schedule explorer's stand-in for sync/atomic: every operation is a scheduling
// point (verifsched.Point("atomic")) followed by the real operation. A structure made of several
// atomics (a key and a value, a flag and a counter) is only as atomic as each single operation.
package atomic

import (
	stdatomic "sync/atomic"
	"unsafe"

	"github.com/anacrolix/dht/v2/verifsched"
)

func pt() { verifsched.Point("atomic") }

func AddInt32(addr *int32, delta int32) int32               { pt(); return stdatomic.AddInt32(addr, delta) }
func AddInt64(addr *int64, delta int64) int64               { pt(); return stdatomic.AddInt64(addr, delta) }
func AddUint32(addr *uint32, delta uint32) uint32           { pt(); return stdatomic.AddUint32(addr, delta) }
func AddUint64(addr *uint64, delta uint64) uint64           { pt(); return stdatomic.AddUint64(addr, delta) }
func AddUintptr(addr *uintptr, delta uintptr) uintptr       { pt(); return stdatomic.AddUintptr(addr, delta) }
func LoadInt32(addr *int32) int32                           { pt(); return stdatomic.LoadInt32(addr) }
func LoadInt64(addr *int64) int64                           { pt(); return stdatomic.LoadInt64(addr) }
func LoadUint32(addr *uint32) uint32                        { pt(); return stdatomic.LoadUint32(addr) }
func LoadUint64(addr *uint64) uint64                        { pt(); return stdatomic.LoadUint64(addr) }
func LoadUintptr(addr *uintptr) uintptr                     { pt(); return stdatomic.LoadUintptr(addr) }
func LoadPointer(addr *unsafe.Pointer) unsafe.Pointer       { pt(); return stdatomic.LoadPointer(addr) }
func StoreInt32(addr *int32, val int32)                     { pt(); stdatomic.StoreInt32(addr, val) }
func StoreInt64(addr *int64, val int64)                     { pt(); stdatomic.StoreInt64(addr, val) }
func StoreUint32(addr *uint32, val uint32)                  { pt(); stdatomic.StoreUint32(addr, val) }
func StoreUint64(addr *uint64, val uint64)                  { pt(); stdatomic.StoreUint64(addr, val) }
func StoreUintptr(addr *uintptr, val uintptr)               { pt(); stdatomic.StoreUintptr(addr, val) }
func StorePointer(addr *unsafe.Pointer, val unsafe.Pointer) { pt(); stdatomic.StorePointer(addr, val) }
func SwapInt32(addr *int32, new int32) int32                { pt(); return stdatomic.SwapInt32(addr, new) }
func SwapInt64(addr *int64, new int64) int64                { pt(); return stdatomic.SwapInt64(addr, new) }
func SwapUint32(addr *uint32, new uint32) uint32            { pt(); return stdatomic.SwapUint32(addr, new) }
func SwapUint64(addr *uint64, new uint64) uint64            { pt(); return stdatomic.SwapUint64(addr, new) }
func CompareAndSwapInt32(addr *int32, old, new int32) bool {
	pt()
	return stdatomic.CompareAndSwapInt32(addr, old, new)
}
func CompareAndSwapInt64(addr *int64, old, new int64) bool {
	pt()
	return stdatomic.CompareAndSwapInt64(addr, old, new)
}
func CompareAndSwapUint32(addr *uint32, old, new uint32) bool {
	pt()
	return stdatomic.CompareAndSwapUint32(addr, old, new)
}
func CompareAndSwapUint64(addr *uint64, old, new uint64) bool {
	pt()
	return stdatomic.CompareAndSwapUint64(addr, old, new)
}

type Bool struct{ v stdatomic.Bool }

func (x *Bool) Load() bool                        { pt(); return x.v.Load() }
func (x *Bool) Store(val bool)                    { pt(); x.v.Store(val) }
func (x *Bool) Swap(new bool) bool                { pt(); return x.v.Swap(new) }
func (x *Bool) CompareAndSwap(old, new bool) bool { pt(); return x.v.CompareAndSwap(old, new) }

type Int32 struct{ v stdatomic.Int32 }

func (x *Int32) Load() int32                        { pt(); return x.v.Load() }
func (x *Int32) Store(val int32)                    { pt(); x.v.Store(val) }
func (x *Int32) Swap(new int32) int32               { pt(); return x.v.Swap(new) }
func (x *Int32) Add(d int32) int32                  { pt(); return x.v.Add(d) }
func (x *Int32) CompareAndSwap(old, new int32) bool { pt(); return x.v.CompareAndSwap(old, new) }

type Int64 struct{ v stdatomic.Int64 }

func (x *Int64) Load() int64                        { pt(); return x.v.Load() }
func (x *Int64) Store(val int64)                    { pt(); x.v.Store(val) }
func (x *Int64) Swap(new int64) int64               { pt(); return x.v.Swap(new) }
func (x *Int64) Add(d int64) int64                  { pt(); return x.v.Add(d) }
func (x *Int64) CompareAndSwap(old, new int64) bool { pt(); return x.v.CompareAndSwap(old, new) }

type Uint32 struct{ v stdatomic.Uint32 }

func (x *Uint32) Load() uint32                        { pt(); return x.v.Load() }
func (x *Uint32) Store(val uint32)                    { pt(); x.v.Store(val) }
func (x *Uint32) Swap(new uint32) uint32              { pt(); return x.v.Swap(new) }
func (x *Uint32) Add(d uint32) uint32                 { pt(); return x.v.Add(d) }
func (x *Uint32) CompareAndSwap(old, new uint32) bool { pt(); return x.v.CompareAndSwap(old, new) }

type Uint64 struct{ v stdatomic.Uint64 }

func (x *Uint64) Load() uint64                        { pt(); return x.v.Load() }
func (x *Uint64) Store(val uint64)                    { pt(); x.v.Store(val) }
func (x *Uint64) Swap(new uint64) uint64              { pt(); return x.v.Swap(new) }
func (x *Uint64) Add(d uint64) uint64                 { pt(); return x.v.Add(d) }
func (x *Uint64) CompareAndSwap(old, new uint64) bool { pt(); return x.v.CompareAndSwap(old, new) }

type Uintptr struct{ v stdatomic.Uintptr }

func (x *Uintptr) Load() uintptr                        { pt(); return x.v.Load() }
func (x *Uintptr) Store(val uintptr)                    { pt(); x.v.Store(val) }
func (x *Uintptr) Swap(new uintptr) uintptr             { pt(); return x.v.Swap(new) }
func (x *Uintptr) Add(d uintptr) uintptr                { pt(); return x.v.Add(d) }
func (x *Uintptr) CompareAndSwap(old, new uintptr) bool { pt(); return x.v.CompareAndSwap(old, new) }

type Pointer[T any] struct{ v stdatomic.Pointer[T] }

func (x *Pointer[T]) Load() *T                        { pt(); return x.v.Load() }
func (x *Pointer[T]) Store(val *T)                    { pt(); x.v.Store(val) }
func (x *Pointer[T]) Swap(new *T) *T                  { pt(); return x.v.Swap(new) }
func (x *Pointer[T]) CompareAndSwap(old, new *T) bool { pt(); return x.v.CompareAndSwap(old, new) }

type Value struct{ v stdatomic.Value }

func (x *Value) Load() any                        { pt(); return x.v.Load() }
func (x *Value) Store(val any)                    { pt(); x.v.Store(val) }
func (x *Value) Swap(new any) any                 { pt(); return x.v.Swap(new) }
func (x *Value) CompareAndSwap(old, new any) bool { pt(); return x.v.CompareAndSwap(old, new) }
