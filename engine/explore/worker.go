// Package explore holds the property-independent part of the explorers: the worker protocol
// (sharding, write-ahead journal, result file), the explicit-state BFS over event histories, and
// counters that end up in the evidence files.
package explore

import (
	"crypto/sha1"
	"encoding/hex"
	"encoding/json"
	"fmt"
	"os"
	"sort"
	"strconv"
	"strings"
	"sync"
	"sync/atomic"
	"time"
)

// Case is one fully determined execution: a unit (scenario + configuration) and the list of
// letters (events or scheduler choices) applied to a fresh instance. It is what replay files
// contain.
type Case struct {
	Prop string   `json:"property"`
	Unit string   `json:"unit"`
	H    []string `json:"history"`
}

func (c Case) String() string { return c.Unit + " :: " + strings.Join(c.H, " ; ") }

// Result of running one Case on the implementation.
type Result struct {
	Key     string // canonical state key of the final state ("" = do not dedup)
	DetKey  string // if set, used instead of Key by the determinism self-check (abstracts runtime-owned choices)
	Outcome string // coarse observation class, for the vacuity statistics
	Viol    string // non-empty: the oracle failed; short kind first, then detail
	Steps   int    // transitions (events / scheduler steps) executed
	Stop    bool   // do not extend this history (terminal state)
}

type Violation struct {
	Case   Case   `json:"case"`
	Kind   string `json:"kind"`
	Detail string `json:"detail"`
	Sig    string `json:"signature"`
	Crash  bool   `json:"crash,omitempty"`
}

// Signature identifies a violation for known-findings matching: property, unit, history, kind.
func Signature(c Case, kind string) string {
	return c.Prop + "|" + c.Unit + "|" + strings.Join(c.H, ";") + "|" + kind
}

func kindOf(viol string) string {
	if i := strings.Index(viol, ":"); i > 0 {
		return viol[:i]
	}
	return viol
}

type Stats struct {
	Prop          string         `json:"property"`
	Shard         string         `json:"shard"`
	Tier          string         `json:"tier"`
	Units         int            `json:"units"`
	UnitNames     []string       `json:"unit_names,omitempty"`
	Executions    int64          `json:"executions"`
	States        int64          `json:"states"`
	Transitions   int64          `json:"transitions"`
	Evaluations   int64          `json:"evaluations"`
	Distinct      int64          `json:"distinct_nontrivial"`
	Outcomes      map[string]int `json:"outcomes"`
	Samples       []Case         `json:"samples"`
	Violations    []Violation    `json:"violations"`
	Exhaustive    bool           `json:"exhaustive"`
	Caps          []string       `json:"caps,omitempty"`
	Bounds        map[string]any `json:"bounds,omitempty"`
	Notes         []string       `json:"notes,omitempty"`
	WallS         float64        `json:"wall_s"`
	Done          bool           `json:"done"`
	MaxDepth      int            `json:"max_depth"`
	HarnessErrors []string       `json:"harness_errors,omitempty"`
	Rule          string         `json:"rule,omitempty"`
}

type Worker struct {
	Prop     string
	Tier     string
	Seed     int64
	ShardI   int
	ShardN   int
	outPath  string
	journal  *os.File
	start    time.Time
	deadline time.Time
	skipTo   int // resume: skip units with index < skipTo
	onlyUnit string

	lastBeat atomic.Int64
	inCase   atomic.Bool
	finished atomic.Bool

	mu       sync.Mutex
	S        Stats
	distinct map[string]struct{}
}

func getenv(k, def string) string {
	if v := os.Getenv(k); v != "" {
		return v
	}
	return def
}

// NewWorker reads the worker protocol from the environment:
//
//	VERIF_TIER=quick|thorough  VERIF_SEED=<int>  VERIF_SHARD=i/n  VERIF_OUT=<result json>
//	VERIF_JOURNAL=<file>  VERIF_RESUME=<unit index>  VERIF_BUDGET_S=<seconds>
func NewWorker(prop string) *Worker {
	w := &Worker{Prop: prop, start: time.Now(), ShardN: 1, distinct: map[string]struct{}{}}
	w.Tier = getenv("VERIF_TIER", "quick")
	w.Seed, _ = strconv.ParseInt(getenv("VERIF_SEED", "0"), 10, 64)
	if sh := os.Getenv("VERIF_SHARD"); sh != "" {
		fmt.Sscanf(sh, "%d/%d", &w.ShardI, &w.ShardN)
	}
	w.outPath = os.Getenv("VERIF_OUT")
	if j := os.Getenv("VERIF_JOURNAL"); j != "" {
		f, err := os.OpenFile(j, os.O_CREATE|os.O_WRONLY|os.O_APPEND, 0o644)
		if err == nil {
			w.journal = f
		}
	}
	w.skipTo, _ = strconv.Atoi(getenv("VERIF_RESUME", "0"))
	budget, _ := strconv.Atoi(getenv("VERIF_BUDGET_S", "0"))
	if budget > 0 {
		w.deadline = w.start.Add(time.Duration(budget) * time.Second)
	}
	w.onlyUnit = os.Getenv("VERIF_ONLY_UNIT")
	if wd, _ := strconv.Atoi(getenv("VERIF_CASE_WATCHDOG_S", "0")); wd > 0 {
		w.lastBeat.Store(time.Now().UnixNano())
		go w.watchdog(time.Duration(wd) * time.Second)
	}
	w.S = Stats{Prop: prop, Shard: fmt.Sprintf("%d/%d", w.ShardI, w.ShardN), Tier: w.Tier,
		Outcomes: map[string]int{}, Exhaustive: true, Bounds: map[string]any{}}
	return w
}

// watchdog runs outside any bubble. A single case normally takes about a millisecond; if none
// completes for the whole (two-minute) window the worker is wedged: the journal says on which case.
func (w *Worker) watchdog(d time.Duration) {
	for {
		time.Sleep(d / 8)
		if w.finished.Load() {
			return
		}
		if time.Since(time.Unix(0, w.lastBeat.Load())) > d && w.inCase.Load() {
			w.jwrite("WATCHDOG")
			w.Flush(false)
			os.Exit(3)
		}
	}
}

func (w *Worker) SetRule(s string) {
	w.mu.Lock()
	w.S.Rule = s
	w.mu.Unlock()
}

func (w *Worker) Thorough() bool { return w.Tier == "thorough" }

// Mine tells whether unit number idx (global, deterministic order) belongs to this shard and has
// not been completed or abandoned by a previous incarnation of the worker.
func (w *Worker) Mine(idx int) bool {
	if idx%w.ShardN != w.ShardI {
		return false
	}
	return idx >= w.skipTo
}

// SkipTo is the first unit index this incarnation still has to run (resume after a crash).
func (w *Worker) SkipTo() int { return w.skipTo }

func (w *Worker) OutOfTime() bool {
	return !w.deadline.IsZero() && time.Now().After(w.deadline)
}

// Remaining budget (zero deadline = a day).
func (w *Worker) Remaining() time.Duration {
	if w.deadline.IsZero() {
		return 24 * time.Hour
	}
	return time.Until(w.deadline)
}

func (w *Worker) Cap(msg string) {
	w.mu.Lock()
	defer w.mu.Unlock()
	w.S.Exhaustive = false
	for _, c := range w.S.Caps {
		if c == msg {
			return
		}
	}
	w.S.Caps = append(w.S.Caps, msg)
}

func (w *Worker) Note(msg string) {
	w.mu.Lock()
	defer w.mu.Unlock()
	if len(w.S.Notes) < 40 {
		w.S.Notes = append(w.S.Notes, msg)
	}
}

func (w *Worker) Bound(k string, v any) {
	w.mu.Lock()
	defer w.mu.Unlock()
	w.S.Bounds[k] = v
}

// BeginUnit journals "unit idx started"; if the process dies the driver knows where to resume.
func (w *Worker) BeginUnit(idx int, name string) {
	w.jwrite(fmt.Sprintf("U %d %s", idx, name))
	w.mu.Lock()
	w.S.Units++
	if len(w.S.UnitNames) < 64 {
		w.S.UnitNames = append(w.S.UnitNames, name)
	}
	w.mu.Unlock()
}

// Journal the case about to run (write-ahead), so a crash is attributable.
func (w *Worker) Journal(c Case) {
	if w.journal == nil {
		return
	}
	b, _ := json.Marshal(c)
	w.lastBeat.Store(time.Now().UnixNano())
	w.inCase.Store(true)
	w.jwrite("C " + string(b))
}

func (w *Worker) jwrite(s string) {
	if w.journal == nil {
		return
	}
	w.journal.WriteString(s + "\n")
}

// EndCase closes a journalled case that is deliberately not recorded (measurement runs that every
// shard repeats): a crash inside it is still attributed through the journal.
func (w *Worker) EndCase() {
	w.lastBeat.Store(time.Now().UnixNano())
	w.inCase.Store(false)
}

// Record accounts for one executed case.
func (w *Worker) Record(c Case, r Result) {
	w.lastBeat.Store(time.Now().UnixNano())
	w.inCase.Store(false)
	w.mu.Lock()
	defer w.mu.Unlock()
	w.S.Executions++
	w.S.Evaluations++
	w.S.Transitions += int64(r.Steps)
	if len(c.H) > w.S.MaxDepth {
		w.S.MaxDepth = len(c.H)
	}
	if r.Outcome != "" {
		w.S.Outcomes[r.Outcome]++
	}
	if len(w.S.Samples) < 3 || (w.S.Executions%997 == 0 && len(w.S.Samples) < 8) {
		w.S.Samples = append(w.S.Samples, c)
	}
	if r.Viol != "" {
		k := kindOf(r.Viol)
		if len(w.S.Violations) < 200 {
			w.S.Violations = append(w.S.Violations, Violation{Case: c, Kind: k, Detail: r.Viol, Sig: Signature(c, k)})
		}
	}
}

// Distinct counts a distinct non-trivial case by key (for exploration-level evidence).
func (w *Worker) Distinct(key string) {
	h := sha1.Sum([]byte(key))
	k := hex.EncodeToString(h[:8])
	w.mu.Lock()
	if _, ok := w.distinct[k]; !ok {
		w.distinct[k] = struct{}{}
		w.S.Distinct++
	}
	w.mu.Unlock()
}

// Count accounts for n evaluated inputs of which d are distinct and non-trivial (bulk form of
// Record/Distinct for the input enumerators, where per-input bookkeeping would dominate).
func (w *Worker) Count(n, d int64) {
	w.lastBeat.Store(time.Now().UnixNano())
	w.mu.Lock()
	w.S.Evaluations += n
	w.S.Executions += n
	w.S.Distinct += d
	w.mu.Unlock()
}

// Sample records an example case without counting it.
func (w *Worker) Sample(c Case) {
	w.mu.Lock()
	if len(w.S.Samples) < 6 {
		w.S.Samples = append(w.S.Samples, c)
	}
	w.mu.Unlock()
}

// Violate records a violation found by an enumerator.
func (w *Worker) Violate(c Case, viol string) {
	w.mu.Lock()
	k := kindOf(viol)
	if len(w.S.Violations) < 200 {
		w.S.Violations = append(w.S.Violations, Violation{Case: c, Kind: k, Detail: viol, Sig: Signature(c, k)})
	}
	w.mu.Unlock()
}

func (w *Worker) Outcome(o string, n int) {
	w.mu.Lock()
	w.S.Outcomes[o] += n
	w.mu.Unlock()
}

func (w *Worker) AddStates(n int) {
	w.mu.Lock()
	w.S.States += int64(n)
	w.mu.Unlock()
}

func (w *Worker) Flush(done bool) {
	w.mu.Lock()
	defer w.mu.Unlock()
	w.S.WallS = time.Since(w.start).Seconds()
	w.S.Done = done
	if w.outPath == "" {
		return
	}
	sort.Slice(w.S.Violations, func(i, j int) bool { return w.S.Violations[i].Sig < w.S.Violations[j].Sig })
	b, _ := json.MarshalIndent(&w.S, "", " ")
	tmp := w.outPath + ".tmp"
	os.WriteFile(tmp, b, 0o644)
	os.Rename(tmp, w.outPath)
}

func (w *Worker) Finish() {
	w.finished.Store(true)
	w.Flush(true)
	if w.journal != nil {
		w.jwrite("DONE")
		w.journal.Close()
	}
}

// ReplayCase returns the case to replay when the binary is invoked in replay mode.
func ReplayCase() (Case, bool) {
	p := os.Getenv("VERIF_REPLAY")
	if p == "" {
		return Case{}, false
	}
	b, err := os.ReadFile(p)
	if err != nil {
		panic(err)
	}
	var v struct {
		Case Case `json:"case"`
	}
	if err := json.Unmarshal(b, &v); err != nil {
		panic(err)
	}
	return v.Case, true
}
