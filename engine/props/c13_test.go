package props

import (
	"errors"
	"fmt"
	"math"
	"strconv"
	"strings"
	"sync"
	"testing"
	"time"

	"github.com/anacrolix/dht/v2"
	"github.com/anacrolix/dht/v2/bep44"
	"github.com/anacrolix/dht/v2/krpc"

	"verif/explore"
	"verif/sim"
)

// C13 — BEP 44 versions only move forward: seq, CAS, expiry (sequential part).
//
// Every sequence of puts / gets / clock steps on one mutable target is executed on the real
// bep44.Wrapper (directly) and on the real Server (over the wire, with tokens) and compared step by
// step with a reference model written from the property text.

const c13Exp = 2 * time.Hour

// ---- reference model ---------------------------------------------------------------------------------

type c13Ref struct {
	present bool // an item is in the underlying store (possibly expired but not yet deleted)
	seq     int64
	v       string
	created time.Time
}

func (r *c13Ref) expired(now time.Time) bool { return r.present && now.Sub(r.created) > c13Exp }

// allowed outcomes of put(seq, cas, v): set of "ok", "301", "302"
func (r *c13Ref) putAllowed(now time.Time, seq, cas int64, v string) map[string]bool {
	out := map[string]bool{}
	if !r.present {
		out["ok"] = true
		return out
	}
	casBad := cas != 0 && cas != r.seq
	switch {
	case seq < r.seq, seq == r.seq && v != r.v:
		out["302"] = true
		if casBad {
			out["301"] = true
		}
	case seq == r.seq: // same value: a refresh
		out["ok"] = true
		if casBad {
			out["301"] = true
		}
	default:
		if casBad {
			out["301"] = true
		} else {
			out["ok"] = true
		}
	}
	if r.expired(now) {
		// An item past its expiry that was not yet deleted may or may not still count (the property
		// only says it is no longer served).
		out["ok"] = true
	}
	return out
}

func (r *c13Ref) applyPut(now time.Time, outcome string, seq int64, v string) {
	if outcome == "ok" {
		r.present, r.seq, r.v, r.created = true, seq, v, now
	}
}

// get: (served, seq, v); a get on an expired item deletes it
func (r *c13Ref) get(now time.Time) (bool, int64, string) {
	if !r.present {
		return false, 0, ""
	}
	if r.expired(now) {
		r.present = false
		return false, 0, ""
	}
	return true, r.seq, r.v
}

// ---- recording store with monotonicity monitor ----------------------------------------------------------

type c13Store struct {
	mu     sync.Mutex
	m      map[bep44.Target]*bep44.Item
	viol   string
	nPuts  int
	onOp   func(op string) // E2 hook: scheduling point before each operation
	putLog []int64
}

func newC13Store() *c13Store { return &c13Store{m: map[bep44.Target]*bep44.Item{}} }

func (s *c13Store) Put(i *bep44.Item) error {
	if s.onOp != nil {
		s.onOp("store-put")
	}
	s.mu.Lock()
	defer s.mu.Unlock()
	t := i.Target()
	if old, ok := s.m[t]; ok && i.IsMutable() && i.Seq < old.Seq && s.viol == "" {
		s.viol = fmt.Sprintf("seq-decreased: Store.Put replaces the stored item seq=%d by seq=%d", old.Seq, i.Seq)
	}
	s.m[t] = i
	s.nPuts++
	s.putLog = append(s.putLog, i.Seq)
	return nil
}

func (s *c13Store) Get(t bep44.Target) (*bep44.Item, error) {
	if s.onOp != nil {
		s.onOp("store-get")
	}
	s.mu.Lock()
	defer s.mu.Unlock()
	i, ok := s.m[t]
	if !ok {
		return nil, bep44.ErrItemNotFound
	}
	return i, nil
}

func (s *c13Store) Del(t bep44.Target) error {
	if s.onOp != nil {
		s.onOp("store-del")
	}
	s.mu.Lock()
	defer s.mu.Unlock()
	delete(s.m, t)
	return nil
}

// ---- letters -----------------------------------------------------------------------------------------------

func c13Seq(s string) int64 {
	if s == "max" {
		return math.MaxInt64
	}
	v, _ := strconv.ParseInt(s, 10, 64)
	return v
}

func c13PutLetters(wire bool) (out []string) {
	seqs := []string{"-1", "0", "1", "2", "3", "max"}
	cass := []string{"0", "1", "2", "9"}
	if wire {
		seqs = []string{"0", "1", "2", "max"}
		cass = []string{"0", "1", "9"}
	}
	for _, s := range seqs {
		for _, c := range cass {
			for _, v := range []string{"a", "b"} {
				out = append(out, "P:"+s+":"+c+":"+v)
			}
		}
	}
	return
}

func c13Alphabet(wire bool) []string {
	a := c13PutLetters(wire)
	if wire {
		a = append(a, "G", "G:0", "G:1", "G:2", "G:max")
	} else {
		a = append(a, "G")
	}
	return append(a, "T1", "T2")
}

func c13Item(seq, cas int64, v string) *bep44.Item {
	pub := pubOf(bepKey1)
	it := &bep44.Item{V: v, K: pub, Seq: seq, Cas: cas}
	copy(it.Sig[:], refSign(bepKey1, nil, seq, sim.Enc(v)))
	return it
}

func errCode(err error) string {
	if err == nil {
		return "ok"
	}
	var ke krpc.Error
	if errors.As(err, &ke) {
		return strconv.Itoa(ke.Code)
	}
	if errors.Is(err, bep44.ErrItemNotFound) {
		return "notfound"
	}
	return "err:" + err.Error()
}

var c13States = map[string]struct{}{}

// ---- runner --------------------------------------------------------------------------------------------

func runC13(t *testing.T, c explore.Case) (res explore.Result) {
	wire := strings.Contains(c.Unit, "mode=wire")
	var outcomes []string
	p := Bubble(t, func() {
		store := newC13Store()
		ref := &c13Ref{}
		target := mutableTarget(pubOf(bepKey1), nil)
		var w *bep44.Wrapper
		var y *Sys
		if wire {
			y = NewSys(func(cfg *dht.ServerConfig) { cfg.Store = store; cfg.Exp = c13Exp })
			defer y.Close()
		} else {
			w = bep44.NewWrapper(store, c13Exp)
		}
		for i, l := range c.H {
			res.Steps++
			f := strings.Split(l, ":")
			now := time.Now()
			switch f[0] {
			case "T1":
				time.Sleep(c13Exp - time.Nanosecond)
				outcomes = append(outcomes, "t")
			case "T2":
				time.Sleep(2 * time.Nanosecond)
				outcomes = append(outcomes, "t")
			case "P":
				seq, cas, v := c13Seq(f[1]), c13Seq(f[2]), f[3]
				allowed := ref.putAllowed(now, seq, cas, v)
				var got string
				if wire {
					tok := y.fetchToken(srcV4, "get")
					now = time.Now()
					allowed = ref.putAllowed(now, seq, cas, v)
					it := c13Item(seq, cas, v)
					a := sim.M{"id": sim.IDStr(peerID), "token": tok, "v": v, "seq": seq, "k": string(it.K[:]), "sig": string(it.Sig[:])}
					if cas != 0 {
						a["cas"] = cas
					}
					ws, _ := y.Deliver(srcV4, sim.Query("pp", "put", a))
					outs := DecodeWrites(ws)
					if len(outs) != 1 {
						res.Viol = fmt.Sprintf("put-reply: step %d %s: %d datagrams written in reaction to a tokened put (%s)", i, l, len(outs), Briefs(ws))
						return
					}
					switch outs[0].Y() {
					case "r":
						got = "ok"
					case "e":
						got = strconv.FormatInt(outs[0].ECode(), 10)
					default:
						got = "?" + outs[0].Y()
					}
				} else {
					got = errCode(w.Put(c13Item(seq, cas, v)))
				}
				outcomes = append(outcomes, got)
				if !allowed[got] {
					res.Viol = fmt.Sprintf("put-outcome: step %d %s answered %q; the reference (stored present=%v seq=%d v=%q expired=%v) allows %v", i, l, got, ref.present, ref.seq, ref.v, ref.expired(now), keysBool(allowed))
					return
				}
				ref.applyPut(now, got, seq, v)
			case "G":
				served, rseq, rv := ref.get(now)
				if wire {
					a := sim.M{"id": sim.IDStr(peerID), "target": sim.IDStr(target)}
					var seqArg *int64
					if len(f) > 1 {
						sa := c13Seq(f[1])
						seqArg = &sa
						a["seq"] = sa
					}
					ws, _ := y.Deliver(srcV4, sim.Query("gg", "get", a))
					outs := DecodeWrites(ws)
					if len(outs) != 1 || outs[0].Y() != "r" {
						res.Viol = fmt.Sprintf("get-reply: step %d %s: expected one response, got %s", i, l, Briefs(ws))
						return
					}
					r := outs[0].R()
					gv, hasV := r["v"]
					gseq, hasSeq := r["seq"].(int64)
					outcomes = append(outcomes, fmt.Sprintf("g%v%v", hasV, hasSeq))
					wantV := served && (seqArg == nil || rseq > *seqArg)
					switch {
					case !served && (hasV || hasSeq):
						res.Viol = fmt.Sprintf("served-expired-or-absent: step %d %s: reply carries v=%v seq=%v although nothing is stored / the item is older than the expiry (reference present=%v)", i, l, hasV, hasSeq, ref.present)
					case served && hasSeq && gseq != rseq:
						res.Viol = fmt.Sprintf("get-seq: step %d %s: reply seq=%d, the last accepted put had seq=%d", i, l, gseq, rseq)
					case wantV && !hasV:
						res.Viol = fmt.Sprintf("get-missing: step %d %s: the accepted item (seq=%d v=%q) is not returned", i, l, rseq, rv)
					case !wantV && hasV:
						res.Viol = fmt.Sprintf("get-seq-filter: step %d %s: v was sent although the stored seq %d is not newer than the seq the get named", i, l, rseq)
					case wantV && fmt.Sprint(gv) != rv:
						res.Viol = fmt.Sprintf("get-value: step %d %s: returned v=%v, the last accepted put stored %q", i, l, gv, rv)
					}
					if res.Viol != "" {
						return
					}
				} else {
					it, err := w.Get(target)
					outcomes = append(outcomes, "g"+errCode(err))
					switch {
					case served && err != nil:
						res.Viol = fmt.Sprintf("get-missing: step %d: Get returned %v, the reference holds seq=%d v=%q", i, err, rseq, rv)
					case served && (it.Seq != rseq || fmt.Sprint(it.V) != rv):
						res.Viol = fmt.Sprintf("get-value: step %d: Get returned seq=%d v=%v, the last accepted put stored seq=%d v=%q", i, it.Seq, it.V, rseq, rv)
					case !served && err == nil:
						res.Viol = fmt.Sprintf("served-expired-or-absent: step %d: Get returned seq=%d v=%v although nothing is stored / the item is older than the expiry", i, it.Seq, it.V)
					}
					if res.Viol != "" {
						return
					}
				}
			}
			c13States[fmt.Sprintf("%v|%d|%s|%v", ref.present, ref.seq, ref.v, ref.expired(time.Now()))] = struct{}{}
			store.mu.Lock()
			sv := store.viol
			store.mu.Unlock()
			if sv != "" {
				res.Viol = fmt.Sprintf("%s (step %d %s)", sv, i, l)
				return
			}
		}
	})
	if p != "" && res.Viol == "" {
		res.Viol = "panic: " + firstLineOf(p)
	}
	res.Outcome = strings.Join(outcomes, ",")
	return
}

func firstLineOf(s string) string {
	if i := strings.Index(s, "\n"); i > 0 {
		return s[:i]
	}
	return s
}

func keysBool(m map[string]bool) (out []string) {
	for _, k := range []string{"ok", "301", "302"} {
		if m[k] {
			out = append(out, k)
		}
	}
	return
}

func c13Sequential(t *testing.T, w *explore.Worker, idx *int) {
	type mode struct {
		name  string
		wire  bool
		depth int
	}
	modes := []mode{{"direct", false, 3}, {"wire", true, 2}}
	if w.Thorough() {
		modes = []mode{{"direct", false, 4}, {"wire", true, 3}}
	}
	for _, m := range modes {
		alpha := c13Alphabet(m.wire)
		w.Bound("depth_"+m.name, m.depth)
		w.Bound("alphabet_"+m.name, len(alpha))
		for _, first := range alpha {
			i := *idx
			*idx++
			if !w.Mine(i) {
				continue
			}
			if w.OutOfTime() {
				w.Cap("time budget hit in the sequential tier (" + m.name + ")")
				continue
			}
			unit := "mode=" + m.name
			w.BeginUnit(i, unit+";first="+first)
			var rec func(h []string)
			rec = func(h []string) {
				c := explore.Case{Prop: "C13", Unit: unit, H: append([]string(nil), h...)}
				if len(h) == m.depth {
					w.Journal(c)
					w.Record(c, runC13(t, c))
					return
				}
				for _, a := range alpha {
					if w.OutOfTime() {
						w.Cap("time budget hit in the sequential tier (" + m.name + ")")
						return
					}
					rec(append(h, a))
				}
			}
			// all sequences of exactly depth letters starting with first (shorter ones are their prefixes:
			// the oracle runs after every step)
			rec([]string{first})
			w.Flush(false)
		}
	}
}
