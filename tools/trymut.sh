#!/bin/bash
# usage: tools/trymut.sh <patch.diff> <ID> [tier] — runs the check for <ID> against a scratch worktree of /repo's HEAD with the patch applied.
set -u
patch=$(realpath "$1"); id=$2; tier=${3:-quick}
wt=$(mktemp -d /tmp/mutrun-XXXXXX); rmdir "$wt"
git -C /repo worktree add -q --detach "$wt" HEAD || exit 2
trap 'git -C /repo worktree remove --force "$wt" 2>/dev/null; rm -rf "$wt"' EXIT
git -C "$wt" apply "$patch" || { echo "patch does not apply"; exit 2; }
cd /verif && VERIF_REPO="$wt" VERIF_REPLAYS_DIR=/verif/.build/mut-replays VERIF_EVIDENCE_DIR=/verif/.build/mut-evidence ./run "$id" "$tier" 2>&1 | cut -c1-500
echo "rc=${PIPESTATUS[0]}"
