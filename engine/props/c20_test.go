package props

import (
	"context"
	"errors"
	"fmt"
	"sort"
	"strconv"
	"strings"
	"testing"
	"testing/synctest"
	"time"

	"github.com/anacrolix/dht/v2"
	"golang.org/x/time/rate"

	"verif/explore"
	"verif/sim"
)

// C20 — outbound traffic never exceeds the configured send budget (virtual time).

type c20Lim struct {
	name  string
	every time.Duration // one token per 'every'
	burst int
}

var c20Lims = []c20Lim{{"1ps-b1", time.Second, 1}, {"1ps-b3", time.Second, 3}, {"10ps-b2", 100 * time.Millisecond, 2}, {"0.1ps-b1", 10 * time.Second, 1}}

// thorough tier only
var c20LimsMore = []c20Lim{{"2ps-b5", 500 * time.Millisecond, 5}, {"1ps-b2", time.Second, 2}}

func c20LimByName(n string) c20Lim {
	for _, l := range append(append([]c20Lim(nil), c20Lims...), c20LimsMore...) {
		if l.name == n {
			return l
		}
	}
	return c20Lims[0]
}

var c20InboundKinds = []string{"ping", "find_node", "vote", "put-badtoken-noa", "get"}

// outbound query option sets
func c20RL(name string) (rl dht.QueryRateLimiting) {
	switch name {
	case "notfirst":
		rl.NotFirst = true
	case "notany":
		rl.NotAny = true
	case "waitonretries":
		rl.WaitOnRetries = true
	case "nowaitfirst":
		rl.NoWaitFirst = true
	}
	return
}

type c20Write struct {
	at    time.Duration
	kind  string // r | e | q
	dest  string
	tid   string
	rated bool
	ok    bool
}

// sync-level tier (schedule explorer), present only in overlay builds (build tag verife2)
var (
	c20SyncTier   func(t *testing.T, w *explore.Worker, idx *int)
	c20SyncReplay func(t *testing.T, c explore.Case) explore.Result
)

func runC20(t *testing.T, c explore.Case) (res explore.Result) {
	if strings.HasPrefix(c.Unit, "sync;") {
		if c20SyncReplay == nil {
			return explore.Result{Viol: "HARNESS: sync tier not built"}
		}
		return c20SyncReplay(t, c)
	}
	p := kv(c.H)
	lim := c20LimByName(p["lim"])
	n, _ := strconv.Atoi(p["n"])
	srcs, _ := strconv.Atoi(p["srcs"])
	nout, _ := strconv.Atoi(p["out"])
	tries, _ := strconv.Atoi(p["tries"])
	failAt, _ := strconv.Atoi(p["fail"])
	wait := p["wait"] == "t"
	var outcome string
	pan := Bubble(t, func() {
		y := NewSys(func(cfg *dht.ServerConfig) {
			cfg.SendLimiter = rate.NewLimiter(rate.Every(lim.every), lim.burst)
			cfg.WaitToReply = wait
			cfg.QueryResendDelay = func() time.Duration { return lim.every / 2 }
		})
		defer func() {
			y.Close()
			time.Sleep(time.Minute)
			synctest.Wait()
		}()
		if failAt > 0 {
			y.Conn.FailSend = map[int]error{failAt: errors.New("scripted send error")}
		}
		start := time.Now()
		// which outbound query (by destination) has which options
		rlOf := map[string]dht.QueryRateLimiting{}
		outDone := make([]bool, nout)
		outRes := make([]dht.QueryResult, nout)
		ctx, cancel := context.WithCancel(context.Background())
		defer cancel()
		for i := 0; i < nout; i++ {
			i := i
			dest := sim.UDP4(80, 0, 0, byte(i+1), 8000+i)
			rl := c20RL(p["rl"])
			if i == 1 {
				rl = dht.QueryRateLimiting{} // the second query always uses the defaults
			}
			if i == 2 {
				rl = dht.QueryRateLimiting{WaitOnRetries: true} // the third one is a maintenance-style ping
			}
			rlOf[dest.String()] = rl
			qctx := ctx
			if p["dl"] == "short" {
				// a deadline that falls before the next token becomes available
				var c2 context.CancelFunc
				qctx, c2 = context.WithTimeout(ctx, lim.every/4)
				defer c2()
			}
			go func() {
				outRes[i] = y.S.Query(qctx, dht.NewAddr(dest), "ping", dht.QueryInput{NumTries: tries, RateLimiting: rl})
				outDone[i] = true
			}()
		}
		// inbound flood
		var gap time.Duration
		switch p["pat"] {
		case "half":
			gap = lim.every / 2
		case "full":
			gap = lim.every
		case "quarter":
			gap = lim.every / 4
		case "double":
			gap = 2 * lim.every
		}
		type arrival struct {
			at  time.Duration
			src string
			tid string
			k   string
		}
		var arrivals []arrival
		for i := 0; i < n; i++ {
			src := sim.UDP4(81, 0, 0, byte(i%srcs+1), 8100+i%srcs)
			kind := c20InboundKinds[i%len(c20InboundKinds)]
			tid := fmt.Sprintf("f%02d", i)
			at := time.Duration(i) * gap
			if el := time.Since(start); at > el {
				time.Sleep(at - el)
			}
			synctest.Wait()
			a := sim.M{"id": sim.IDStr(peerID), "target": sim.IDStr(targetT)}
			var b []byte
			switch kind {
			case "put-badtoken-noa":
				b = sim.Enc(sim.M{"t": tid, "y": "q", "q": "find_node"}) // no arguments: error 203 path
			default:
				b = sim.Query(tid, kind, a)
			}
			y.Conn.Inject(src, b)
			arrivals = append(arrivals, arrival{time.Since(start), src.String(), tid, kind})
			synctest.Wait()
		}
		// horizon: enough for every waiting reply and every resend
		ticks := 4 * (n + nout*tries + 8)
		for i := 0; i < ticks; i++ {
			time.Sleep(lim.every / 4)
			synctest.Wait()
		}
		cancel()
		synctest.Wait()
		// ---- classify the write log ----
		firstSeen := map[string]bool{}
		var ws []c20Write
		for _, w := range y.Conn.Writes() {
			o := DecodeWrites([]*sim.Write{w})[0]
			cw := c20Write{at: w.At.Sub(start), kind: o.Y(), dest: w.To.String(), tid: o.T(), ok: w.Err == nil, rated: true}
			if cw.kind == "q" {
				rl := rlOf[cw.dest]
				key := cw.dest + "|" + cw.tid
				first := !firstSeen[key]
				if cw.ok {
					firstSeen[key] = true
				}
				if rl.NotAny || (rl.NotFirst && first) {
					cw.rated = false
				}
			}
			ws = append(ws, cw)
		}
		var rated []c20Write
		for _, w := range ws {
			if w.rated && w.ok {
				rated = append(rated, w)
			}
		}
		sort.SliceStable(rated, func(i, j int) bool { return rated[i].at < rated[j].at })
		r := float64(time.Second) / float64(lim.every) // tokens per second
		for i := range rated {
			for j := i; j < len(rated); j++ {
				count := float64(j - i + 1)
				window := (rated[j].at - rated[i].at).Seconds()
				if count > float64(lim.burst)+r*window+1e-6 {
					// how many rate-limited writes failed (and were refunded) up to the end of the window
					refunds := 0
					for _, w := range ws {
						if w.rated && !w.ok && w.at <= rated[j].at {
							refunds++
						}
					}
					kind := "budget-exceeded"
					if refunds > 0 && count <= float64(lim.burst)+r*window+float64(refunds)+1e-6 {
						kind = "budget-exceeded-after-refund"
					}
					res.Viol = fmt.Sprintf("%s: %d rate-limited datagrams within %.3fs (from +%v %s to +%v %s), budget burst %d + %.2f/s x window = %.2f; %d rate-limited writes had failed and were refunded before", kind, j-i+1, window, rated[i].at, rated[i].kind, rated[j].at, rated[j].kind, lim.burst, r, float64(lim.burst)+r*window, refunds)
					return
				}
			}
		}
		// replies: never late unless the node waits; with WaitToReply every response eventually leaves
		arrAt := map[string]time.Duration{}
		kindOf := map[string]string{}
		for _, a := range arrivals {
			arrAt[a.src+"|"+a.tid] = a.at
			kindOf[a.src+"|"+a.tid] = a.k
		}
		replied := map[string]int{}
		for _, w := range ws {
			if w.kind != "r" && w.kind != "e" {
				continue
			}
			k := w.dest + "|" + w.tid
			at, ok := arrAt[k]
			if !ok {
				res.Viol = fmt.Sprintf("stray-reply: %s to %s t=%q answers no query of this history", w.kind, w.dest, w.tid)
				return
			}
			replied[k]++
			if replied[k] > 1 && w.ok {
				res.Viol = fmt.Sprintf("double-reply: query %s answered %d times", k, replied[k])
				return
			}
			if (!wait || w.kind == "e") && w.at != at {
				res.Viol = fmt.Sprintf("late-reply: %s for %s written %v after the query although the node does not wait for budget", w.kind, k, w.at-at)
				return
			}
		}
		if wait && failAt == 0 {
			for k, kind := range kindOf {
				if kind != "vote" && kind != "put-badtoken-noa" && replied[k] == 0 {
					res.Viol = fmt.Sprintf("reply-never-sent: WaitToReply is set but the response to %s (%s) never left within the horizon", k, kind)
					return
				}
			}
		}
		// outbound queries: returned, and their Writes agree with the socket
		for i := 0; i < nout; i++ {
			if !outDone[i] {
				res.Viol = fmt.Sprintf("query-hangs: outbound query %d did not return", i)
				return
			}
		}
		nr, nq, nun := 0, 0, 0
		for _, w := range ws {
			switch {
			case !w.ok:
			case w.kind == "q" && !w.rated:
				nun++
			case w.kind == "q":
				nq++
			default:
				nr++
			}
		}
		outcome = fmt.Sprintf("replies=%d ratedq=%d unratedq=%d", nr, nq, nun)
	})
	if pan != "" && res.Viol == "" {
		res.Viol = "panic: " + firstLineOf(pan)
	}
	res.Outcome = outcome
	res.Steps = n + nout
	return
}

func init() { runners["C20"] = runC20 }

var c20States = map[string]struct{}{}

func TestC20(t *testing.T) {
	w := explore.NewWorker("C20")
	defer w.Finish()
	w.SetRule("limiter (rate, burst) in {(1/s,1),(1/s,3),(10/s,2),(0.1/s,1)} x WaitToReply on/off x inbound floods of 0..6 (thorough: 0..12) queries of mixed kinds (ping, find_node, unknown method => error path, missing arguments => error path, get) from 1 or 3 sources arriving all at once / spaced half a token interval / spaced one token interval (thorough: also a quarter and two intervals, two more limiters (2/s,5) (1/s,2), a third outbound query, NumTries 2, write errors on writes 3 and 4) x 0..2 concurrent outbound queries to silent peers with rate-limiting options {default, NotFirst, NotAny, WaitOnRetries, NoWaitFirst} x NumTries {1,3} x context {no deadline, a deadline shorter than the wait for the next token} x scripted socket write error on write {none,1,2} (token refund path); the clock advances in quarter-token ticks to a horizon; oracle over the written-datagram timeline: every window of rate-limited datagrams (all r/e, every q send not exempted by its options) holds at most burst + rate x length; replies are immediate or never unless the node waits, then every response eventually leaves; no reply is sent twice; outbound queries return")
	idx := 0
	defer func() { w.AddStates(len(c20States)) }()
	defer func() {
		// after the grid, with what is left of the budget
		sidx := 1000000
		if c20SyncTier != nil {
			c20SyncTier(t, w, &sidx)
		}
	}()
	run := func(h []string) {
		i := idx
		idx++
		if !w.Mine(i) {
			return
		}
		if w.OutOfTime() {
			w.Cap("time budget hit")
			return
		}
		c := explore.Case{Prop: "C20", Unit: "c20", H: h}
		w.BeginUnit(i, strings.Join(h, ";"))
		w.Journal(c)
		r := runC20(t, c)
		w.Record(c, r)
		w.Distinct(strings.Join(h, ";"))
		c20States[r.Outcome+"|"+h[0]+h[1]] = struct{}{}
	}
	ns := []int{0, 1, 2, 4, 6}
	lims := c20Lims
	pats := []string{"burst", "half", "full"}
	outs := []int{0, 1, 2}
	triesSet := []int{1, 3}
	fails := []int{0, 1, 2}
	if w.Thorough() {
		ns = []int{0, 1, 2, 3, 4, 5, 6, 8, 10, 12}
		lims = append(append([]c20Lim(nil), c20Lims...), c20LimsMore...)
		pats = []string{"burst", "quarter", "half", "full", "double"}
		outs = []int{0, 1, 2, 3}
		triesSet = []int{1, 2, 3}
		fails = []int{0, 1, 2, 3, 4}
	}
	for _, lim := range lims {
		for _, wait := range []string{"f", "t"} {
			for _, n := range ns {
				for _, srcs := range []int{1, 3} {
					if n < 2 && srcs == 3 {
						continue
					}
					for _, pat := range pats {
						if n < 2 && pat != "burst" {
							continue
						}
						for _, out := range outs {
							rls := []string{"default"}
							if out > 0 {
								rls = []string{"default", "notfirst", "notany", "waitonretries", "nowaitfirst"}
							}
							for _, rl := range rls {
								for _, tries := range triesSet {
									if out == 0 && tries != 1 {
										continue
									}
									for _, fail := range fails {
										if !w.Thorough() && fail != 0 && (pat == "full" || srcs == 3) {
											continue
										}
										if n == 0 && out == 0 {
											continue
										}
										h := []string{"lim=" + lim.name, "wait=" + wait, "n=" + strconv.Itoa(n), "srcs=" + strconv.Itoa(srcs), "pat=" + pat,
											"out=" + strconv.Itoa(out), "rl=" + rl, "tries=" + strconv.Itoa(tries), "fail=" + strconv.Itoa(fail)}
										run(h)
										if out > 0 && fail == 0 && (w.Thorough() || pat == "burst") {
											run(append(append([]string(nil), h...), "dl=short"))
										}
									}
								}
							}
						}
					}
				}
			}
		}
	}
}
