#!/usr/bin/env python3
"""Regenerates MANIFEST.json from the table below (single source of truth for the interface)."""
import json, os, subprocess

HERE = os.path.dirname(os.path.abspath(__file__))

E1 = "explicit-state BFS over event histories of the real dht.Server in a testing/synctest bubble (fake clock, fake socket), canonical-state dedup, oracle on every transition"
E2 = "stateless DFS over scheduler choices at synchronisation points of the real traversal code (sync/chansync imports rewritten to scheduler shims by a build-time overlay, real code otherwise unmodified) inside a testing/synctest bubble: iterative preemption bounding, state-key pruning, exhaustive completion orders"
E3 = "exhaustive enumeration of a bounded structured input domain against an independent reference implementation"

# id -> (built?, level, technique, level text, level note, design ref)
CHECKS = {
    "C02": dict(level="model_checking", technique=E2,
                text="The real traversal.Operation is run under a controlled scheduler (every mutex Lock, BroadcastCond.Signaled/Broadcast, SetOnce.Set, the return of every DoQuery, and harness AddNodes/Stop calls are scheduling points; mutex ownership modelled). Fine tier: 15 designed scenarios (chains, fill race, duplicate IDs, data filter, node filter incl. peers answering under a filtered ID, late AddNodes, one address under several IDs, repeated addresses, IPv4-mapped addresses, silent peers, Stop at any point) explored by state-pruned DFS with <=1 preemption (quick) / unbounded (thorough), free non-preemptive switches and freely placed stall polls, plus unpruned iterative preemption bounding on the two smallest scenarios. Coarse tier: every response graph on 3 peers + an ID-less seed (4096) with at most one silent or lying peer x K,Alpha x seed sets, all completion orders. Oracle on the result set after Stopped(): size <= K, every member answered (id, address, data as returned) and passes node and data filter, no filter-passing responder outside is strictly closer than a member, the set does not change after Stopped() fired, honest networks yield exactly the K closest.",
                note="state pruning relies on a state key (thread positions, operation snapshot, harness log); the unpruned tier does not; equal-distance ties are free (strict comparisons only)",
                ref="DESIGN.md 5/C02"),
    "C03": dict(level="model_checking", technique=E2,
                text="Same exploration as C02. Oracle: whenever a (freely placed, non-blocking) poll obtains a stall value no DoQuery is in flight, the operation counts no outstanding query, and every contact handed to the operation (completed AddNodes, replies of returned queries) that passes the filter has been queried unless the result set is full and the contact is strictly farther than its farthest member or has no ID; every maximal schedule ends, within a step horizon, in a state where the lookup reports stalled (else: lost wake-up / deadlock / non-termination), and after Stop in a state where Stopped() is readable; mutex misuse and panics are violations.",
                note="a consumer blocked in a receive on Stalled() (select tie in the run loop) is not modelled: consumers poll; see DESIGN.md C03 note",
                ref="DESIGN.md 5/C03"),
    "C04": dict(level="model_checking", technique=E2,
                text="Same exploration as C02. Monitor inside the harness DoQuery and in every quiescent state: concurrent DoQuery calls <= Alpha at every entry; each address (IP, port) is passed to DoQuery at most once per lookup however often and under however many IDs it is reported (replies, seeds, AddNodes, 4-byte and IPv4-mapped forms); an address rejected by the node filter is never queried; once Stop has returned, the context of every DoQuery still in flight is cancelled in the next quiescent state.",
                note="Alpha in {1,2,3}; addresses are a small IPv4 set",
                ref="DESIGN.md 5/C04"),
    "C12": dict(level="model_checking", technique="exhaustive enumeration of put sequences and of get-traversal reply assignments/orders on the real bep44.Wrapper, Server and getput.Get (E1 style: real code in a testing/synctest bubble, fake socket, simulated nodes) against an independent reference (crypto/ed25519 + own signed-buffer construction)",
                text="Store side: 162 puts from a generator (immutable values of 6 shapes incl. encodings of exactly 999/1000/1001 bytes; mutable puts over 2 keys x salts of 0/1/64/65 bytes x seq 0..2 x signature in {valid, made for another salt / seq / value / key, three single-bit flips, all-zero}) delivered over the wire with a fresh token and directly into bep44.Wrapper with a recording store, as singles and as all ordered pairs (quick: pairs of a 60-letter core; thorough: all pairs); after every step a get for every target and every value hash ever mentioned. Reference: accepted iff encoded value <= 1000 bytes and (immutable or (salt <= 64 bytes and the ed25519 signature verifies over the harness' own signed buffer)); a rejected put is answered with an applicable code of 205/206/207 and causes no Store.Put; an accepted item is served exactly under its target; every served value re-verifies (signature under that target's key and salt, or SHA-1 of the encoded value). Client side: getput.Get on a mutable and an immutable target against 1-2 (quick) / 1-3 (thorough) simulated nodes, each with one of 13 behaviours (genuine seq 1/2, forged value under a genuine signature, a genuine signature replayed over another value or seq, another key, matching key without seq, bad signature, another salt, immutable genuine / wrong hash, no token, nothing), all assignments x all reply orders and a time-out variant: the result is the verified value with the highest seq delivered, or 'value not found' iff none verifies.",
                note="seq/cas ordering rules (301/302) are C13's and are treated as legal rejections here; crypto/ed25519 and SHA-1 are trusted",
                ref="DESIGN.md 5/C12"),
    "C19": dict(level="model_checking", technique=E1 + "; scripted path histories enumerated over blocklist shape x installation moment x passive x path x ordered pairs of inbound kinds",
                text="Blocklist shape {single IPv4, IPv4 range, single IPv6, IPv4+IPv6 (harness' own iplist.Ranger)} x installation {at construction; by SetIPBlockList after the blocked peer is in the table / holds a valid token / has a query pending} x passive on/off x path: all ordered pairs of 9 inbound datagram kinds from the blocked peer (every query method incl. validly-tokened announce_peer and put, unknown method, unsolicited response, error); response / error to the query that was pending when the list was installed; Ping/FindNode/GetPeers/Get/Put to the blocked peer; Bootstrap, Announce, getput.Get, getput.Put over a network whose seeds and replies list the blocked peer; an announce in which the blocked peer answered get_peers with a token before it was blocked; a 20-minute TableMaintainer run with the blocked peer in the table; ordinary service of every method from an unblocked peer. Oracle: no datagram is ever written to a destination that was blocklisted at that moment (whole write log); an inbound datagram from a blocked address causes no write and leaves routing table (incl. timestamps), BEP 44 store, peer store, hooks and pending transactions unchanged; a pending query is not completed by a blocked reply and the sender does not enter the table; lookups attempt no query to a blocked address (attempted == reached the wire); passive => no r/e is ever written and every written q carries ro=1; not passive => no written q carries ro.",
                note="a reply racing the installation of the list inside one quiescence step is not enumerated (E1 granularity)",
                ref="DESIGN.md 5/C19"),
    "C20": dict(level="model_checking", technique=E1 + " with exact virtual time; oracle = token-bucket window bound over the timeline of written datagrams",
                text="Limiter (rate, burst) in {(1/s,1), (1/s,3), (10/s,2), (0.1/s,1)} x WaitToReply on/off x inbound floods of 0..6 (thorough 8) queries of mixed kinds (ping, find_node, get, unknown method and missing-arguments => error path) from 1 or 3 sources arriving all at once / spaced half a token interval / one token interval x 0..2 concurrent outbound queries to silent peers with rate-limiting options {default, NotFirst, NotAny, WaitOnRetries, NoWaitFirst} x NumTries {1,3} x a scripted socket write error on write {none, 1, 2} (token-refund path); the virtual clock advances in quarter-token ticks to a horizon covering every waiting reply and resend. Oracle over the written-datagram timeline: for every pair i<=j of successfully written rate-limited datagrams (all r/e, every q send not exempted by its query's options) j-i+1 <= burst + rate x (t_j - t_i); responses and errors are written at the instant of their query or never, unless the node waits, in which case every response leaves by the horizon; no query is answered twice or by a datagram nobody asked for; outbound queries return.",
                note="an exceedance that is explained by refunds of failed rate-limited writes is classified budget-exceeded-after-refund (known finding K3); exempted sends are classified from the options the harness passed",
                ref="DESIGN.md 5/C20"),
    "C13": dict(level="model_checking", technique="exhaustive enumeration of operation sequences of the real bep44.Wrapper and Server against a sequential reference model (E1 style, fake clock), plus " + E2.replace("traversal code", "bep44 code") + " with a brute-force linearizability check",
                text="Sequential: every sequence (depth 3 quick / 4 thorough directly on bep44.Wrapper with a 51-letter alphabet; depth 2 / 3 over the wire on the real Server with a fresh token per put) of put(seq in {-1,0,1,2,3,MaxInt64}, cas in {0,1,2,9}, value a|b), get (over the wire also naming seq 0/1/2/MaxInt64) and clock steps to 1 ns before / past the expiry, compared after every step with a reference model: 302 for a lower seq or the same seq with another value, 301 unless cas equals the stored seq, an accepted put is what gets return, nothing is served after the expiry, v is sent to a get naming a seq only if the stored seq is newer, and the stored seq never decreases at any Store.Put. Concurrent: 8 scenarios of 2-3 concurrent Wrapper.Put/Get calls (two/three puts, same seq, cas race, empty slot, put vs get, expired item vs put) under the controlled scheduler with points at Store.Get/Put/Del and the wrapper mutex; all interleavings (unbounded), each checked for monotone stored seq and for linearizability against the same model by brute force over the call orders consistent with real time, including the final state later gets see.",
                note="in the corner the statement leaves open (same seq, same value, mismatching cas) both accept and 301 are legal; an expired item that was not yet deleted may or may not still block a lower-seq put",
                ref="DESIGN.md 5/C13"),
    "C14": dict(level="fault_enumeration", technique="exhaustive enumeration of a fault/timing placement grid on the real dht.Server in a testing/synctest bubble (virtual clock, fake socket with scripted write errors and stuck writes, simulated peers); plus stateless DFS over scheduler choices at the synchronisation points of the real Server.Query path (root package built through the import-rewriting overlay: s.mu Lock/RLock, SetOnce.Set, socket writes and budgeted clock ticks are scheduling points) with preemption bounding and state-key pruning",
                text="Grid (resend delay 1 s, 1 ns resolution): one Query with NumTries 1..3 x reply instant x ctx-cancel instant x Server.Close instant, each in {never, right after the first send, d/2, k*d - 1 ns, k*d + 1 ns}, x scripted socket write error on send i, x a socket write that is stuck for half an interval with the reply, the cancellation or Close falling inside that window, x rate-limit options {default, NoWaitFirst, WaitOnRetries, NotAny} with a full or an empty limiter; every API call (Ping, FindNode, GetPeers, Get, Put) and every traversal (Bootstrap, BootstrapContext, AnnounceTraversal with/without announcing and with Close / StopTraversing, getput.Get mutable and immutable, getput.Put) under 7 start conditions (empty starting nodes, nil resolver, resolver error, one silent node, one answering node, 3-node network with a silent member, two nodes one silent) x stop instant {never, 0, 0.5 s, 2.5 s}; failing starts are repeated 3 times on one server. Oracle: the call returns; with the cause whose decisive instant comes first (reply / ctx / send error / closed / time-out after the last resend interval; same-instant ties accept either); at most NumTries datagrams and none after the return; in the first quiescent state after the return no pending transaction (Stats and dispatcher) and no goroutine with a frame in the module except the serve loop; after Close a new query fails and writes nothing and no goroutine remains. Sync-level tier: 9 scenarios of one Query (NumTries 1-2) racing its reply, a reply from another port, the caller's cancellation, Server.Close, a scripted write error and the resend / time-out timers; every interleaving at lock / socket-write / timer granularity with <= 2 preemptions (quick) or unbounded (thorough), same oracle plus: a reply result only if the reply was delivered from the queried address, a context / closed / send error only if that event happened.",
                note="sync tier: cancellation is schedulable only after the first send attempt, because the sender's first select races a zero-delay timer against ctx.Done() and the Go runtime owns that choice; BootstrapContext returns at once on ctx cancellation while its context-less find_node queries run to their own time-out: for that case cleanup is checked at the horizon instead of at the return; goroutines stranded by earlier executions in the same process are excluded by bubble id",
                ref="DESIGN.md 5/C14"),
    "C16": dict(level="model_checking", technique=E1 + "; letters are the pending outbound queries of the real AnnounceTraversal (answer / let time out) plus Close / StopTraversing at every position",
                text="Real Server.AnnounceTraversal over simulated networks of 3-4 peers (peer i lists the later peers) with per-peer get_peers behaviour in {token+nodes, token+values, no token, empty token, error reply, silent, answers under another ID}: all 343 assignments for 3 peers plus designed 3- and 4-peer networks x options {port, implied_port, scrape+port, no announce} x consumer {reads to the end, stops after 0/1 deliveries then closes and drains, stops for good and closes} x {no stop, Close, StopTraversing at every position} x 1-2 starting nodes. DFS with canonical-state dedup over every order of answering / timing out the pending get_peers and announce_peer queries. Oracle in every state: announce_peer only when enabled, only to nodes that answered get_peers with a token in this traversal, at most one each, carrying exactly that node's token (empty string included), the announced info_hash and the configured port / implied_port; Peers never delivers more than was received. At every terminal state: each closest-set member got exactly one announce_peer (unless Close intervened), every response received while the consumer was reading was delivered once with the responder's address and claimed ID, Peers is closed and Finished() readable.",
                note="with at most 4 peers and K=8 the closest set is the set of token-bearing responders; the unexported traversal is not inspected. Known finding K2 (consumer that never reads again + Close) is reported as KNOWN-FINDING",
                ref="DESIGN.md 5/C16"),
    "C05": dict(level="model_checking", technique=E1,
                text="All event histories up to the stated depth (full alphabet depth 2 / core alphabet depth 4 quick; deeper thorough) from 5 start states x 2 configurations are executed on the real Server; after every event the table snapshot must be a well-formed Kademlia table and agree with NumNodes/Stats/Nodes/WriteStatus. Bounded exhaustive, not a proof.",
                note="go1.26.8 synctest runtime; VerifTable hook snapshot is trusted to copy the table faithfully; eviction victim among equally eligible entries is chosen by Go map order and not enumerated",
                ref="DESIGN.md 5/C05"),
    "C06": dict(level="model_checking", technique=E1,
                text="Same explorer as C05 with 4 configurations (security on/off x blocklist); every transition (snapshot before, event, snapshot after) is checked against a reference admission/eviction policy written from the property text: only the direct sender of a query / matched response / AddNode may appear, never hearsay, unsolicited, mismatched, read-only, blocked or BEP42-invalid senders; at most one eviction, only of a bad or never-responded (when the newcomer just answered) entry in a full bucket; no good entry ever disappears; eligible senders are admitted when the bucket has room.",
                note="reference goodness/BEP42 rules are independent re-implementations; eviction victim choice (Go map order) is not enumerated, any victim that occurs is checked; AddNode of a blocklisted address is outside the property (the blocklist concerns datagrams)",
                ref="DESIGN.md 5/C06"),
    "C17": dict(level="exploration", technique=E3,
                text="Exhaustive for IPv4: all 2^20 values of the masked address bits x 8 seeds through SecureNodeId and NodeIdSecure against an independent bitwise CRC32-C reference (only the first 21 bits change, idempotent, verifies, verification agrees with the reference also on 28 neighbours of each secured ID on a sub-lattice; unmasked bits and the 4/16-byte form do not matter on a 2^12 sub-lattice); IPv6 36-bit lattice (singles and pairs) x 8 seeds x fill; 322-ID lattice; published BEP 42 vectors; first/last address of every exempt range and their outer neighbours; Server.ID() over public-IP configurations.",
                note="IPv6 and the ID space are covered by a structured lattice, not exhaustively; hash/crc32 is not trusted (own bitwise reference) but net.IP parsing is",
                ref="DESIGN.md 5/C17"),
    "C15": dict(level="exploration", technique=E3,
                text="Bounded exhaustive enumeration: every alternative and every pair of alternatives of every Msg/MsgArgs/Return field plus the full presence product of pointer/omitempty fields (about 10^4 messages) through encode/decode/deep-equal; the complete one-edit neighbourhood (all truncations, 10 structural byte substitutions per position) of a 42-datagram corpus through decode/re-encode/fixpoint; every compact list decoder in binary and bencoded form on every length 0..3*size+1 x 3 fills (accepted iff multiple of the entry size, identical re-encoding); every other exported UnmarshalBinary/UnmarshalBencode on lengths 0..120; nodes-file round trip. Every call runs under recover: a panic is a violation.",
                note="'all byte strings' is reached as a grammar plus one-edit neighbourhood, not all strings; bencode library trusted; ID.UnmarshalText and ID acceptance of over-long strings are outside the property's quantifier and not checked",
                ref="DESIGN.md 5/C15"),
    "C18": dict(level="exploration", technique=E3,
                text="Bounded exhaustive enumeration of algebraic laws: all ordered pairs of a 331-ID lattice (symmetry, identity, unsigned order, bit length, bucket index == shared prefix length against math/big and a bit loop), all bit positions for GetBit/SetBit, random IDs for all 160 buckets x 3 roots, closer-than over a 24-candidate universe x 4 targets (all pairs and all 13824 triples: irreflexive, antisymmetric, total, transitive, known-before-unknown, distance-monotone), every push sequence of length <= 6 over 6 elements into the K-nearest container (K=1..3) and every add/delete sequence of length <= 5 over 5 elements into the sorted candidate set against a sorted-slice reference.",
                note="IDs outside the lattice and longer sequences are not covered; equal-distance ties may be retained either way (maphash tie-break is not observed)",
                ref="DESIGN.md 5/C18"),
    "C08": dict(level="model_checking", technique=E1 + "; oracle = reference responder on generically decoded datagrams",
                text="Every (method x argument shape x transaction-id form x source form x configuration) single query, every non-query message (matched to a pending query or not), and all ordered pairs of 12 representative queries delivered concurrently and in sequence are executed on the real Server; the multiset of datagrams written in reaction is compared with a reference responder: destination = source, t byte-identical, exactly one r/e where the property demands one (203 for missing arguments, 204 for unknown methods), own id and the requester's compact address in ip, silence when passive/vetoed/out of budget and for every non-query.",
                note="malformed (undecodable) queries are only required to produce at most one correctly addressed reaction; send budget is modelled only as a one-token limiter here (C20 covers budgets)",
                ref="DESIGN.md 5/C08"),
    "C10": dict(level="model_checking", technique=E1 + " with exact virtual time (fake clock starts on a token-rotation boundary)",
                text="Grid of issue offsets within the rotation x use delays around 10 and 15 minutes (nanosecond-exact) x users (same address, other port, v4-mapped) x {announce_peer, immutable put, mutable put} x token source {get_peers, get}; 186 token mutations (all single-bit flips, truncations, extensions, empty, absent, second server's token, token issued to another IP); foreign IPs with the exact token. Recording peer store, BEP 44 store and announce callback observe effects. Accept <= 10 min and reject > 15 min are demanded, 10-15 min is free, reply <=> effect.",
                note="the server secret is random per instance; oracles never depend on token bytes, only on who was issued what and when",
                ref="DESIGN.md 5/C10"),
    "C07": dict(level="model_checking", technique=E1 + "; letters are built from the transaction ids observed on the fake socket",
                text="6 scenarios of 1-3 concurrently outstanding queries (same destination twice, different destinations, same IP with two ports, ping+get+ping to one address, IPv4+IPv6); BFS over all datagram sequences (depth 3 quick / 4 thorough) whose letters are derived from the observed transaction ids: own reply, own error, unknown y, adjacent / extended / prefixed / truncated / empty t, right t from another port or another IP, another pending query's t. Every reply carries a unique marker. Reference: a datagram completes exactly the pending query with this (IP, port, t), with its payload, once; every other datagram leaves all pending calls and the outstanding-transaction count unchanged; simultaneously outstanding t are pairwise distinct; all sequences end with the remaining queries timing out and zero outstanding transactions.",
                note="transaction ids are a process-global counter: the harness reads them off the wire and never predicts them",
                ref="DESIGN.md 5/C07"),
    "C09": dict(level="model_checking", technique=E1 + "; tables are built through real traffic, oracle = set-level reference selection on the hook snapshot",
                text="Routing tables built through real traffic from recipes (per bucket in {0,1,2,5,159} one of 10 contents mixing good v4/v6, questionable, good-by-recent-query, never-responded and failed-ping entries; all assignments with at most 2 (quick) / 3 (thorough) non-empty buckets plus 6 large hand-shaped tables incl. >8 good in one bucket) x targets {own ID, an ID in buckets 0,1,2,3,5,158,159} x {find_node(target), get_peers(info_hash), get(target)} each with a decoy ID in the other field x want in {absent, n4, n6, both, xx} x source family. nodes/nodes6 are parsed from raw bytes and compared with a reference selection: family/width, presence per BEP 32, at most 8 distinct, each listed contact in the table, responded, good, not self; nearest-bucket-first downward closure; fewer than 8 only when buckets at or beyond the target's are exhausted.",
                note="set-level oracle: which 8 of more than 8 eligible entries of the last bucket are listed (Go map order) is free",
                ref="DESIGN.md 5/C09"),
    "C11": dict(level="model_checking", technique=E1 + "; plus exhaustive 2-schedule enumeration of the asynchronous peer-store updates of two announces",
                text="BFS over announce histories (depth 3 quick / 4 thorough; sources: IPv4 in 4-byte form, the same IPv4 in 16-byte form, same IP other UDP port, IPv6, another IPv4; 2 infohashes; ports 1/80/65535 with and without implied_port; wrong-token announces) on the real Server with the bundled in-memory peer store; after every event all 16 get_peers probes (2 infohashes x want in {absent,n4,n6,both} x IPv4/IPv6 requester) are compared with a reference map (infohash, IP) -> endpoint: values only from announced endpoints of that infohash, every wanted-family endpoint present, only 6-byte entries to IPv4-wanting and 18-byte entries to IPv6-wanting requesters, token present in every reply. Plus both orders of the two asynchronous store updates of two announces from one IP (known finding K1).",
                note="peer-store updates are spawned goroutines; in the BFS each event runs to quiescence, so their order is only enumerated in the dedicated schedule case",
                ref="DESIGN.md 5/C11"),
    "C01": dict(level="model_checking", technique=E1 + "; crash attribution through a write-ahead journal of worker processes",
                text="A structured hostile alphabet (about 450 datagrams: every field of every method removed/retyped/resized, envelope variants, unsolicited and malformed responses and errors, non-KRPC bytes up to 64 KiB, 10000-key dicts, 30000-deep nesting, 60000-digit integers) is delivered in 6 configurations x 4 start states, as singles and as all ordered pairs of the letters that had any effect at depth 1; the complete one-edit byte neighbourhood of a 42-datagram corpus; 10 own operations (ping .. getput.Put) each answered with about 480 hostile replies (all single and pairwise field alternatives plus malformed envelopes). After each history 40 virtual seconds pass, then a fresh ping must be answered (or registered when passive / out of budget) and Stats/NumNodes/Nodes/WriteStatus must return; a dead or wedged worker is reported with the journalled case.",
                note="'all byte strings' is reached as alphabet + pairs + one-edit neighbourhood; a wedge on a leaked lock shows as a worker that makes no progress for 120 s of real time (normal case time is about 1 ms)",
                ref="DESIGN.md 5/C01"),
}

NOT_YET = {}


def main():
    props = [json.loads(l) for l in open(os.path.join(HERE, "properties.jsonl"))]
    ids = [p["id"] for p in props]
    hooks = []
    try:
        out = subprocess.run(["git", "-C", "/repo", "log", "--format=%H %s"], capture_output=True, text=True).stdout
        for ln in out.splitlines():
            h, _, s = ln.partition(" ")
            if s.startswith("verif hooks:") or s.startswith("hooks:"):
                hooks.append(h)
    except Exception:
        pass
    checks = []
    for i in ids:
        c = CHECKS.get(i)
        if not c:
            continue
        checks.append({
            "property_id": i,
            "quick_cmd": f"./run {i} quick",
            "thorough_cmd": f"./run {i} thorough",
            "evidence_file": f"evidence/{i}.json",
            "replay_cmd_template": "./run replay {path}",
            "engine": "verif-engine",
            "level_claimed": {"category": c["level"], "text": c["text"], "design_ref": c["ref"]},
            "level_note": c["note"],
            "technique": c["technique"],
        })
    na = [{"property_id": i, "reason": NOT_YET.get(i, "check not built yet in this round (planned, see DESIGN.md section 5); not claimed until it exists and passes")}
          for i in ids if i not in CHECKS]
    m = {
        "version": 1,
        "setup_cmd": "./run setup",
        "hooks": {
            "guard": "verif",
            "enable": "go1.26 test -tags verif (build tag); E2 checks additionally use a build-time -overlay that rewrites sync imports of traversal/ and bep44/ to scheduler shims, /repo untouched",
            "baseline_off_cmd": "cd /repo && go test -vet=off -count=1 -timeout 25m ./...",
            "source_commits": hooks,
            "add_only": True,
        },
        "engines": [{"name": "verif-engine", "path": "engine/", "serves_properties": [c["property_id"] for c in checks],
                     "kind_free_text": "hand-written explorers in Go: E1 explicit-state BFS over event histories (real server in synctest bubble), E2 stateless schedule DFS with preemption bounding, E3 bounded input enumeration; python driver ./run shards work over 16 worker processes"}],
        "checks": checks,
        "not_applicable": na,
        "notes": "All checks execute the real implementation; there is no separate model. ./run <id> <tier> rebuilds from /repo's working tree on every invocation.",
    }
    with open(os.path.join(HERE, "MANIFEST.json"), "w") as f:
        json.dump(m, f, indent=1)
    print("wrote MANIFEST.json:", len(checks), "checks,", len(na), "not claimed")


if __name__ == "__main__":
    main()
