//go:build verife2

package props

import (
	"fmt"
	"os"
	"sort"
	"strings"
	"testing"
	"testing/synctest"
	"time"

	"github.com/anacrolix/dht/v2"
	"github.com/anacrolix/dht/v2/verifsched"
	"golang.org/x/time/rate"

	"verif/explore"
	"verif/sim"
)

// C20 at synchronisation-point granularity with the clock as a scheduled choice: three inbound pings
// from three sources, a limiter of one token per second (burst 1 or 2), no waiting. Every lock
// operation of the send path, the start of every reply goroutine and every socket write is a
// scheduling point, and the explorer may let a second pass at any of them (budgeted) - so a reply
// can sit between entering the send path and asking the limiter while time moves on and other
// replies go out. Oracle: the window bound over the written datagrams' virtual timestamps.

type b2Scn struct {
	Name  string
	Burst int
	N     int
}

func b2Scenarios() []b2Scn {
	return []b2Scn{{"b1-n3", 1, 3}, {"b2-n4", 2, 4}}
}

func runB2(t *testing.T, scn *b2Scn, prefix []int) (x explore.Exec) {
	var c *e2Ctl
	var viol, outcome string
	pan := Bubble(t, func() {
		y := NewSys(func(cfg *dht.ServerConfig) {
			cfg.SendLimiter = rate.NewLimiter(rate.Every(time.Second), scn.Burst)
		})
		closed := false
		defer func() {
			if !closed {
				y.Close()
			}
			time.Sleep(5 * time.Second)
			synctest.Wait()
		}()
		synctest.Wait()
		start := time.Now()
		c = newE2(prefix, 800)
		defer c.done()
		c.S.Fine = true
		// The budget is enforced where the limiter is asked, the oracle reads the socket: no time may
		// pass while a datagram that already holds its token waits to be written.
		inWrite := 0
		y.Conn.BeforeWrite = func() {
			inWrite++
			verifsched.Point("sock-write")
			inWrite--
		}
		c.tickOK = func() bool { return inWrite == 0 }
		c.tick, c.maxTicks = time.Second, 3
		done := 0
		c.wantTick = func() bool { return done < scn.N || len(y.Conn.Writes()) < scn.N } // until every ping has had its chance
		c.stateKey = func() string { return fmt.Sprintf("done=%d w=%d t=%d", done, y.Conn.NumWrites(), c.ticks) }
		for i := 0; i < scn.N; i++ {
			i := i
			go func() {
				verifsched.Tag(fmt.Sprintf("h:asker%d", i))
				verifsched.Point("net")
				y.Conn.InjectSync(sim.UDP4(81, 0, 0, byte(i+1), 8100+i), sim.Query(fmt.Sprintf("b%d", i), "ping", sim.M{"id": sim.IDStr(sim.InBucket(sim.Root, 0, 30+i))}))
				done++
			}()
		}
		if !c.loop(nil) {
			if c.err == "" {
				viol = "horizon: the scenario does not finish"
			}
			return
		}
		if _, bl := c.S.Snapshot(); len(bl) > 0 || done < scn.N {
			viol = "deadlock: the datagrams were not all processed"
			return
		}
		y.Conn.BeforeWrite = nil
		verifsched.Install(nil)
		synctest.Wait()
		var at []time.Duration
		for _, w := range y.Conn.Writes() {
			if w.Err == nil {
				at = append(at, w.At.Sub(start))
			}
		}
		sort.Slice(at, func(i, j int) bool { return at[i] < at[j] })
		for i := range at {
			for j := i; j < len(at); j++ {
				n := float64(j - i + 1)
				win := (at[j] - at[i]).Seconds()
				if n > float64(scn.Burst)+win+1e-6 {
					viol = fmt.Sprintf("budget-exceeded: %d rate-limited replies within %.0fs (written at %v), budget burst %d + 1/s x window = %.0f", j-i+1, win, at, scn.Burst, float64(scn.Burst)+win)
					return
				}
			}
		}
		outcome = fmt.Sprintf("writes=%d", len(at))
	})
	if c != nil {
		x.Points = c.points
		x.Trace = explore.TraceOf(c.points)
		x.Err = c.err
	}
	if pan != "" && viol == "" && x.Err == "" {
		viol = "bubble: " + firstLineOf(pan)
	}
	x.Res.Steps = len(x.Points)
	x.Res.Outcome = outcome
	if viol != "" {
		x.Res.Viol = viol + " [schedule: " + c13Sched(x.Points) + "]"
	}
	return
}

func init() {
	c20SyncTier = func(t *testing.T, w *explore.Worker, idx *int) {
		pb := 2
		if w.Thorough() {
			pb = 3
		}
		w.Bound("sync_tier_preemption_bound", pb)
		for k, scn := range b2Scenarios() {
			scn := scn
			i := *idx
			*idx++
			if !w.Mine(i) || (k > 0 && !w.Thorough()) {
				continue
			}
			unit := "sync;scn=" + scn.Name
			w.BeginUnit(i, unit)
			d := &explore.DFS{W: w, Unit: unit, Preempt: pb, Observe: 2, DetCheck: 2, Prune: os.Getenv("VERIF_NOPRUNE") == "", MaxViol: 5,
				Run: func(prefix []int) explore.Exec { return runB2(t, &scn, prefix) }}
			d.Deadline = time.Now().Add(w.Remaining() / 2)
			d.Explore()
			w.AddStates(d.States)
			w.Note(fmt.Sprintf("%s: %d executions, %d states expanded, %d prunings, max %d scheduling points", unit, d.Executions, d.States, d.Pruned, d.MaxPoints))
			w.Flush(false)
		}
	}
	c20SyncReplay = func(t *testing.T, c explore.Case) explore.Result {
		name := strings.TrimPrefix(c.Unit, "sync;scn=")
		for _, scn := range b2Scenarios() {
			if scn.Name == name {
				ch, _ := explore.HToChoices(c.H)
				x := runB2(t, &scn, ch)
				if x.Err != "" {
					return explore.Result{Viol: "HARNESS: " + x.Err}
				}
				return x.Res
			}
		}
		return explore.Result{Viol: "HARNESS: unknown scenario " + name}
	}
}
