#!/bin/bash
# usage: tools/mutants.sh [glob]   — runs each mutants/<ID>-<name>.diff (ID = property) against its check; prints one line each.
# MUT_TESTS=1 additionally runs the repository's own test suite with the mutant applied (it should stay green).
cd /verif || exit 2
export GOFLAGS=-mod=mod GOPROXY=off GOSUMDB=off GOTOOLCHAIN=local
pat=${1:-*}
for f in mutants/$pat.diff; do
  name=$(basename "$f" .diff); id=${name%%-*}
  if ! git -C /repo diff --quiet; then echo "repo dirty"; exit 2; fi
  if ! git -C /repo apply "$PWD/$f" 2>/dev/null; then echo "$name APPLY-FAILED"; continue; fi
  tests="-"
  if [ -n "$MUT_TESTS" ]; then
    if (cd /repo && go build ./... && go test -vet=off -count=1 ./... >/dev/null 2>&1); then tests=green; else tests=RED; fi
  fi
  out=$(VERIF_REPLAYS_DIR=/verif/.build/mut-replays VERIF_EVIDENCE_DIR=/verif/.build/mut-evidence ./run "$id" ${MUT_TIER:-quick} 2>&1); rc=$?
  git -C /repo checkout -- . ; git -C /repo clean -fdq -- . 2>/dev/null
  kind=$(echo "$out" | grep -m1 -B1 "^VIOLATION" | head -1 | cut -c1-160)
  echo "$name rc=$rc tests=$tests $(echo "$out" | grep -c '^VIOLATION') viol | $kind"
done
