package props

import (
	"crypto/ed25519"
	"crypto/sha1"
	"fmt"
	"net"
	"strings"
	"testing/synctest"
	"time"

	"github.com/anacrolix/dht/v2"
	"golang.org/x/time/rate"

	"verif/sim"
)

// Shared datagram vocabulary for the inbound-query properties (C01, C08, C10, C11, C19, C20).

var (
	srcV4     = sim.UDP4(5, 5, 5, 5, 5555)
	srcV4b    = sim.UDP4(5, 5, 5, 5, 5999) // same IP, other port
	srcV6     = &net.UDPAddr{IP: net.ParseIP("2001:db8::5"), Port: 5555}
	srcMapped = &net.UDPAddr{IP: net.IP{5, 5, 5, 5}.To16(), Port: 5556} // 16-byte form of srcV4's IP (its String() equals the 4-byte form's, hence another port)
	srcZone   = &net.UDPAddr{IP: net.ParseIP("fe80::1234"), Port: 5557, Zone: "eth1"} // zoned link-local source
	srcOther  = sim.UDP4(6, 6, 6, 6, 5555)
	srcProbe  = sim.UDP4(7, 7, 7, 7, 7777)
)

var sources = map[string]*net.UDPAddr{"v4": srcV4, "v4b": srcV4b, "v6": srcV6, "mapped": srcMapped, "v6zone": srcZone, "other": srcOther, "probe": srcProbe}

var (
	peerID  = sim.InBucket(sim.Root, 2, 9)
	ihA     = sim.ID{0xaa, 1, 2, 3, 19: 0xa1}
	ihB     = sim.ID{0xbb, 1, 2, 3, 19: 0xb2}
	targetT = sim.ID{0x33, 19: 0x44}
)

var tidForms = map[string]string{
	"aa": "aa", "empty": "", "a": "a", "nul": "\x00", "hi": "\xff\xfe", "t64": strings.Repeat("T", 64), "t300": strings.Repeat("\x01z", 150),
}
var tidOrder = []string{"aa", "empty", "a", "nul", "hi", "t64", "t300"}

// configs shared by C01/C08
type dgCfg struct {
	Name string
	Opts []SysOpt
}

func dgConfigs() []dgCfg {
	return []dgCfg{
		{"default", nil},
		{"peerstore", []SysOpt{WithPeerStore()}},
		{"passive", []SysOpt{WithPassive(), WithPeerStore()}},
		{"veto", []SysOpt{WithVeto(), WithPeerStore()}},
		{"secure", []SysOpt{WithSecurity(), WithPeerStore()}},
		{"lim1", []SysOpt{WithPeerStore(), func(c *dht.ServerConfig) { c.SendLimiter = rate.NewLimiter(rate.Every(1000*time.Hour), 1) }}},
	}
}

func dgConfig(name string) (dgCfg, bool) {
	for _, c := range dgConfigs() {
		if c.Name == name {
			return c, true
		}
	}
	return dgCfg{}, false
}

// fixed ed25519 keys for BEP 44 items
var (
	bepKey1 = ed25519.NewKeyFromSeed([]byte("verif-bep44-key-one-000000000001"))
	bepKey2 = ed25519.NewKeyFromSeed([]byte("verif-bep44-key-two-000000000002"))
)

func pubOf(k ed25519.PrivateKey) (out [32]byte) {
	copy(out[:], k.Public().(ed25519.PublicKey))
	return
}

// refSignBuf is the harness' own construction of the BEP 44 signed buffer.
func refSignBuf(salt []byte, seq int64, encV []byte) []byte {
	var b []byte
	if len(salt) > 0 {
		b = append(b, fmt.Sprintf("4:salt%d:", len(salt))...)
		b = append(b, salt...)
	}
	b = append(b, fmt.Sprintf("3:seqi%de1:v", seq)...)
	return append(b, encV...)
}

func refSign(k ed25519.PrivateKey, salt []byte, seq int64, encV []byte) []byte {
	return ed25519.Sign(k, refSignBuf(salt, seq, encV))
}

func mutableTarget(pub [32]byte, salt []byte) (t sim.ID) {
	return sha1.Sum(append(append([]byte(nil), pub[:]...), salt...))
}

// fetchToken obtains a write token for src from the server itself (get_peers when a peer store is
// configured, else get), as a remote node would. Returns "" if no token came back.
func (y *Sys) fetchToken(src *net.UDPAddr, via string) string {
	var b []byte
	switch via {
	case "get":
		b = sim.Query("tokq", "get", sim.M{"id": sim.IDStr(peerID), "target": sim.IDStr(targetT)})
	default:
		b = sim.Query("tokq", "get_peers", sim.M{"id": sim.IDStr(peerID), "info_hash": sim.IDStr(ihA)})
	}
	ws, _ := y.Deliver(src, b)
	for _, o := range DecodeWrites(ws) {
		if o.Y() == "r" && o.T() == "tokq" {
			if tok, ok := sim.Str(o.R(), "token"); ok {
				return tok
			}
		}
	}
	return ""
}

// queryArgs returns the `a` dict for a method and shape ("full", "idonly", "emptya"); nil for "noa".
func queryArgs(method, shape, token string) sim.M {
	switch shape {
	case "noa":
		return nil
	case "emptya":
		return sim.M{}
	case "idonly":
		return sim.M{"id": sim.IDStr(peerID)}
	}
	a := sim.M{"id": sim.IDStr(peerID)}
	switch method {
	case "find_node", "sample_infohashes":
		a["target"] = sim.IDStr(targetT)
	case "get":
		a["target"] = sim.IDStr(targetT)
	case "get_peers":
		a["info_hash"] = sim.IDStr(ihA)
	case "announce_peer":
		a["info_hash"] = sim.IDStr(ihA)
		a["port"] = 6881
		a["token"] = token
	case "put":
		a["token"] = token
		a["v"] = "hello"
		a["seq"] = 0
	}
	if shape == "notoken" {
		delete(a, "token")
	}
	return a
}

func waitQuiet() { synctest.Wait() }
